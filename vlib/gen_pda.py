"""Hypothesis strategies producing JSON descriptions of pushdown automata.
{"start": q, "z0": X, "finals": [...], "trans": [[q, a|null, X, p, [push...]], ...], "how": "mut"|"ctor"}"""
from hypothesis import strategies as st

STATE_POOLS = {
    "str": ["q0", "q1", "q2"],
    "int": [0, 1, 2],
    "reserved": ["#STARTTOFINAL#", "#ENDTOFINAL#", "#STARTEMPTYS#", "#ENDEMPTYS#", "q"],
    "startish": ["starting_q", "q", "starting_0"],
    "int_str": [0, "0", 1],              # different values with the same str()
}
STACK_POOLS = {
    "std": ["Z", "A", "B"],
    "int": [0, 1, 2],
    "reserved": ["#BOTTOMTOFINAL#", "#BOTTOMEMPTYS#", "Z", "#BOTTOMTOFINAL#0"],
    "int_str": ["Z", 0, "0"],
}
SYM_POOLS = {"ab": ["a", "b"], "a": ["a"], "int": [0, 1], "tok": ["ab", "c"]}


@st.composite
def pda_desc(draw, max_states=3, max_stack=3, max_trans=7, state_pools=None, stack_pools=None, sym_pools=None,
             eps=True, max_push=3):
    sp = draw(st.sampled_from(state_pools or ["str", "str", "int", "reserved", "startish", "int_str"]))
    kp = draw(st.sampled_from(stack_pools or ["std", "std", "int", "reserved", "int_str"]))
    yp = draw(st.sampled_from(sym_pools or ["ab", "ab", "a", "int", "tok"]))
    ns = min(draw(st.sampled_from([2, 3, 1, 2, 3])), max_states, len(STATE_POOLS[sp]))
    nk = min(draw(st.sampled_from([2, 3, 1, 2])), max_stack, len(STACK_POOLS[kp]))
    states = draw(st.lists(st.sampled_from(STATE_POOLS[sp]), min_size=ns, max_size=ns, unique_by=repr))
    stack = draw(st.lists(st.sampled_from(STACK_POOLS[kp]), min_size=nk, max_size=nk, unique_by=repr))
    syms = SYM_POOLS[yp]
    lab = st.sampled_from(syms + ([None] if eps and draw(st.integers(0, 3)) < 3 else []) + syms)
    push = st.sampled_from([0, 1, 2, 1, 0, 2, max_push]).flatmap(
        lambda k: st.lists(st.sampled_from(stack), min_size=min(k, max_push), max_size=min(k, max_push)))
    tr = st.tuples(st.sampled_from(states), lab, st.sampled_from(stack), st.sampled_from(states), push).map(list)
    m = min(draw(st.sampled_from([4, 5, 3, 6, max_trans, 2, 1])), max_trans)
    trans = draw(st.lists(tr, min_size=m, max_size=m, unique_by=repr))
    nf = draw(st.sampled_from([1, 1, 2, 0, 1]))
    finals = draw(st.lists(st.sampled_from(states), min_size=min(nf, ns), max_size=min(nf, ns), unique_by=repr))
    return {"start": states[0], "z0": stack[0], "finals": finals, "trans": trans,
            "how": draw(st.sampled_from(["mut", "ctor", "ctor_tf"])), "spool": sp, "kpool": kp, "ypool": yp}


FOREIGN = "zz"
