"""Hypothesis strategies producing JSON descriptions of context-free grammars.

{"start": "S", "prods": [[head, [["V", x] | ["T", x], ...]], ...],
 "variables": [declared extra], "terminals": [declared extra], "how": "ctor" | "text"}
"""
from hypothesis import strategies as st

VAR_POOLS = {
    "std": ["S", "A", "B", "C", "D", "E"],
    "long": ["S", "Aa", "B1", "Cvar", "Dd", "E5"],
    # every name the library itself creates for fresh variables (cfg.py) can also be a user's variable
    "fresh": ["S", "A", "#STARTUNION#", "#STARTCONC#", "#STARTCLOS#", "#STARTPOSCLOS#", "#VARPOSCLOS#", "A#SUBS#0",
              "S#SUBS#0", "C#CNF#1", "a#CNF#", "b#CNF#", "#EMPTY##SUBS#0", "#EMPTY#"],
    "lower": ["S", "x", "y", "z"],          # needs "VAR:" markers in text form
    "ints": ["S", 1, 2, 3],
    "int_str": ["S", 1, "1", "A"],          # different values with the same str()
}
TERM_POOLS = {
    "ab": ["a", "b"],
    "abc": ["a", "b", "c"],
    "tok": ["a1", "b_2"],
    "upper": ["a", "B"],                     # needs "TER:" markers in text form
    "shared": ["a", "A", "S"],               # terminals spelled like variables
    "shared_lower": ["x", "a", "y"],         # terminals spelled like the lower-case variables x, y
    "ints": [0, 1],
    "int_str": [1, "1", "a"],                # different values with the same str()
    "fresh": ["a", "b", "#1CLOS#", "#0UNION#", "#1UNION#", "#0CONC#", "#1CONC#", "#1POSCLOS#"],   # the library's placeholder terminals
}
TEXT_OK_VARS = ("std", "long", "lower")
TEXT_OK_TERMS = ("ab", "abc", "tok", "upper", "shared", "shared_lower")


@st.composite
def cfg_desc(draw, var_pools=None, term_pools=None, max_vars=4, max_prods=8, max_body=4,
             allow_text=True, start_always=True, unit_bias=True, min_prods=1, suffix_bias=False, allow_big=True):
    vp = draw(st.sampled_from(var_pools or ["std", "std", "std", "long", "lower", "ints", "fresh", "int_str"]))
    tp = draw(st.sampled_from(term_pools or ["ab", "ab", "abc", "tok", "upper", "shared", "ints", "shared_lower", "int_str"]))
    vpool, tpool = VAR_POOLS[vp], TERM_POOLS[tp]
    # one case in six is "big": longer bodies, more variables and productions than the usual bounds
    big = allow_big and draw(st.sampled_from([0, 0, 0, 1, 0, 0])) == 1
    if big:
        max_vars, max_prods, max_body = max_vars + 2, max_prods + 4, max(max_body, 6)
    nv = min(draw(st.sampled_from([5, 6, 4, 3] if big else [3, 2, 4, 3, 1, 2, 4])), max_vars, len(vpool))
    vs = [vpool[0]] + draw(st.lists(st.sampled_from(vpool[1:]), min_size=nv - 1, max_size=nv - 1,
                                    unique_by=repr)) if nv > 1 else [vpool[0]]
    nt = draw(st.integers(1, min(3, len(tpool))))
    ts = tpool[:2] + draw(st.lists(st.sampled_from(tpool[2:]), max_size=1)) if len(tpool) > 3 else tpool[:nt]
    sym = st.one_of(st.sampled_from(vs).map(lambda v: ["V", v]),
                    st.sampled_from(ts).map(lambda t: ["T", t]))
    body_len = st.sampled_from([5, 6, 2, 5, 3, 1, 6, 4, 0] if big else
                               [2, 1, 2, 3, 0, 1, 2, 3, max_body][: 8 if max_body < 4 else 9])
    body = body_len.flatmap(lambda k: st.lists(sym, min_size=min(k, max_body), max_size=min(k, max_body)))
    specials = []
    if unit_bias:
        # unit productions / unit cycles / epsilon productions are drawn explicitly as well
        specials = [st.sampled_from(vs).map(lambda v: [["V", v]]), st.just([])]
    prod = st.tuples(st.sampled_from(vs), st.one_of(body, body, body, *specials)).map(list)
    np_ = draw(st.sampled_from([2 * nv, nv + 1, 2 * nv + 2, nv, max_prods, 1, 3]))
    np_ = max(min_prods, min(np_, max_prods))
    prods = draw(st.lists(prod, min_size=np_, max_size=np_, unique_by=repr))
    if draw(st.integers(0, 3)) < 3:
        # most variables get a terminal-only production: languages are then rarely empty
        tsym = st.sampled_from(ts).map(lambda t: ["T", t])
        for v in vs:
            if draw(st.integers(0, 2)) < 2:
                p = [v, draw(st.lists(tsym, min_size=1, max_size=2))]
                if p not in prods:
                    prods.append(p)
    if suffix_bias and draw(st.integers(0, 2)) == 0:
        # two or three long productions sharing a suffix (the CNF decomposition caches suffixes)
        suffix = draw(st.lists(sym, min_size=2, max_size=3))
        for _ in range(draw(st.integers(2, 3))):
            p = [draw(st.sampled_from(vs)), draw(st.lists(sym, min_size=1, max_size=2)) + suffix]
            if p not in prods:
                prods.append(p)
    d = {"start": vs[0], "prods": prods, "vpool": vp, "tpool": tp, "how": "ctor"}
    if big:
        d["big"] = True
    if allow_text and vp in TEXT_OK_VARS and tp in TEXT_OK_TERMS and draw(st.integers(0, 2)) == 0:
        d["how"] = "text"
    if d["how"] == "ctor" and draw(st.integers(0, 5)) == 0:
        unused_v = [v for v in vpool if v not in vs]
        if unused_v:
            d["variables"] = [unused_v[0]]
        unused_t = [t for t in tpool if t not in ts]
        if unused_t:
            d["terminals"] = [unused_t[0]]
    if not start_always and draw(st.integers(0, 9)) == 0:
        # a start symbol without productions
        d["prods"] = [p for p in prods if p[0] != vs[0]] or []
    if not d["prods"]:
        d["how"] = "ctor"
    return d


def terminals_of(d):
    from .common import dec
    out = []
    for _h, b in d["prods"]:
        for k, x in b:
            if k == "T" and dec(x) not in out:
                out.append(dec(x))
    for t in d.get("terminals", []):
        if dec(t) not in out:
            out.append(dec(t))
    return out


FOREIGN = "zz"
