"""Reference semantics for finite-state transducers: the relation {(input, output)}.
description: {"starts": [...], "finals": [...], "trans": [[p, a|null, q, [out...]], ...], "states": [...]}"""
from hypothesis import strategies as st

from .common import dec, enc

EPS = None
INFINITE = "infinite"


class RefFST:
    def __init__(self, starts, finals, trans, states=()):
        self.starts = set(starts)
        self.finals = set(finals)
        self.trans = [(p, a, q, tuple(o)) for p, a, q, o in trans]
        self.by = {}
        for t in self.trans:
            self.by.setdefault((t[0], t[1]), []).append(t)
        self.states = set(states) | self.starts | self.finals | {t[0] for t in self.trans} | {t[2] for t in self.trans}
        self.alphabet = {t[1] for t in self.trans if t[1] is not EPS}

    def outputs(self, word, guard=60):
        """set of output words (tuples) for an input word, or INFINITE when outputs grow beyond the guard"""
        word = tuple(word)
        n = len(word)
        seen = set()
        todo = [(0, s, ()) for s in self.starts]
        res = set()
        while todo:
            c = todo.pop()
            if c in seen:
                continue
            seen.add(c)
            i, q, out = c
            if len(out) > guard:
                return INFINITE
            if i == n and q in self.finals:
                res.add(out)
            if i < n:
                for (_p, _a, r, o) in self.by.get((q, word[i]), ()):
                    todo.append((i + 1, r, out + o))
            for (_p, _a, r, o) in self.by.get((q, EPS), ()):
                todo.append((i, r, out + o))
        return res

    def relation(self, words):
        rel = {}
        for w in words:
            o = self.outputs(w)
            if o == INFINITE:
                return INFINITE
            rel[tuple(w)] = o
        return rel

    def eps_cycle_edges(self):
        """epsilon edges lying on an epsilon cycle"""
        eps = [(p, q) for (p, a, q, _o) in self.trans if a is EPS]
        adj = {}
        for p, q in eps:
            adj.setdefault(p, set()).add(q)

        def reach(x):
            s = set()
            todo = [x]
            while todo:
                u = todo.pop()
                for v in adj.get(u, ()):
                    if v not in s:
                        s.add(v)
                        todo.append(v)
            return s
        return {(p, q) for p, q in eps if p in reach(q) or p == q}


def from_desc(d):
    return RefFST([dec(s) for s in d["starts"]], [dec(s) for s in d["finals"]],
                  [(dec(p), dec(a), dec(q), tuple(dec(x) for x in o)) for p, a, q, o in d["trans"]],
                  [dec(s) for s in d.get("states", [])])


def build_lib(d):
    from pyformlang.fst import FST
    f = FST()
    # build order and interleaved queries vary with the description (deterministically): transitions first or
    # markings first; in one mode the transducer translates while it is being built (results not used)
    mode = len(d["trans"]) % 3
    syms = [dec(a) for _p, a, _q, _o in d["trans"] if a is not None][:1]

    def ask():
        # only for descriptions inside the domain of translate (epsilon cycles write nothing): fst_desc sets "ask"
        if d.get("ask") and mode != 1:
            list(f.translate([]))
            list(f.translate(syms))
    def marks():
        for s in d["starts"]:
            f.add_start_state(dec(s))
            ask()
        for s in d["finals"]:
            f.add_final_state(dec(s))
            ask()
    if mode != 1:
        marks()
    for p, a, q, o in d["trans"]:
        f.add_transition(dec(p), "epsilon" if a is None else dec(a), dec(q), [dec(x) for x in o])
        ask()
    if mode == 1:
        marks()
    return f


def from_lib(f):
    trans = []
    for (p, a), outs in f.transitions.items():
        for (q, o) in outs:
            trans.append((p, EPS if a == "epsilon" else a, q, tuple(x for x in o if x != "epsilon")))
    return RefFST(f.start_states, f.final_states, trans, f.states)


STATE_POOLS = {"str": ["s0", "s1", "s2"], "int": [0, 1, 2], "collide": ["s0", "s00", "s01"], "mixed": [0, "0", "00"],
               "star": ["star", "star0", "s"]}


@st.composite
def fst_desc(draw, pool=None, max_states=3, max_trans=6):
    if draw(st.sampled_from([0, 0, 0, 0, 0, 1, 0, 0])) == 1:
        # a long chain of (mostly epsilon-input) moves: long epsilon runs without any cycle
        n = draw(st.sampled_from([6, 10, 14, 15]))
        names = ["s%d" % i for i in range(n)]
        trans = []
        for i in range(n - 1):
            a = None if draw(st.integers(0, 9)) < 8 else draw(st.sampled_from(["a", "b"]))
            trans.append([names[i], a, names[i + 1], draw(st.sampled_from([[], ["x"], [], ["y"]]))])
        return {"starts": [names[0]], "finals": [names[-1]], "trans": trans, "pool": "chain"}
    pn = pool or draw(st.sampled_from(["str", "str", "int", "collide", "mixed", "star"]))
    names = STATE_POOLS[pn]
    n = min(draw(st.sampled_from([2, 3, 1, 2])), max_states)
    states = draw(st.lists(st.sampled_from(names), min_size=n, max_size=n, unique_by=repr))
    ins = ["a", "b"][:draw(st.sampled_from([2, 1]))]
    # output symbols: single characters, symbols that are concatenations of other symbols, int / str twins
    outs = draw(st.sampled_from([["x", "y"], ["x", "y", "xy"], ["x", "y"], [1, "1", "11"]]))
    lab = st.sampled_from(ins + [None] + ins)
    out = st.sampled_from([1, 0, 2, 1]).flatmap(lambda k: st.lists(st.sampled_from(outs), min_size=k, max_size=k))
    tr = st.tuples(st.sampled_from(states), lab, st.sampled_from(states), out).map(list)
    m = min(draw(st.sampled_from([3, 4, 2, 5, max_trans, 1])), max_trans)
    trans = draw(st.lists(tr, min_size=m, max_size=m, unique_by=repr))
    ns = draw(st.sampled_from([1, 1, 2, 1, 0]))
    nf = draw(st.sampled_from([1, 1, 2, 1, 0]))
    starts = draw(st.lists(st.sampled_from(states), min_size=min(ns, n), max_size=min(ns, n), unique_by=repr))
    finals = draw(st.lists(st.sampled_from(states), min_size=min(nf, n), max_size=min(nf, n), unique_by=repr))
    d = {"starts": [enc(s) for s in starts], "finals": [enc(s) for s in finals],
         "trans": [[enc(p), a, enc(q), o] for p, a, q, o in trans], "pool": pn}
    # epsilon cycles must write nothing (the property's domain): strip their outputs
    R = from_desc(d)
    cyc = R.eps_cycle_edges()
    for t in d["trans"]:
        if t[1] is None and (dec(t[0]), dec(t[2])) in cyc:
            t[3] = []
    uniq = []
    for t in d["trans"]:
        if t not in uniq:
            uniq.append(t)
    d["trans"] = uniq
    d["ask"] = draw(st.booleans())      # translate while the transducer is being built (see build_lib)
    return d
