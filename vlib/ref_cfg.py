"""Reference CFG semantics: least fixpoints over finite sets, no parsing algorithm.

A grammar: start (value or None) and productions (head, body) with
body = tuple of ('V', x) | ('T', x).
"""
import collections

from .common import dec, enc


END = ("\x00end-of-input",)      # end marker of FOLLOW sets: no terminal value equals it (a terminal may be "$")


class RefCFG:
    def __init__(self, start, prods, variables=(), terminals=()):
        self.start = start
        self.prods = []
        seen = set()
        for h, b in prods:
            b = tuple((k, x) for k, x in b)
            if (h, b) not in seen:
                seen.add((h, b))
                self.prods.append((h, b))
        self.vars = {h for h, _ in self.prods} | {x for _, b in self.prods for k, x in b if k == 'V'} \
            | ({start} if start is not None else set()) | set(variables)
        self.terms = {x for _, b in self.prods for k, x in b if k == 'T'} | set(terminals)

    # ------------------------------------------------------------ bounded languages
    def words_upto(self, n, var=None):
        L = {v: set() for v in self.vars}
        changed = True
        while changed:
            changed = False
            for h, b in self.prods:
                parts = {()}
                for k, x in b:
                    if k == 'T':
                        parts = {p + (x,) for p in parts if len(p) < n}
                    else:
                        parts = {p + w for p in parts for w in L[x] if len(p) + len(w) <= n}
                    if not parts:
                        break
                new = parts - L[h]
                if new:
                    L[h] |= new
                    changed = True
        return L if var is None else L[var]

    def language_upto(self, n):
        if self.start is None or n < 0:
            return set()
        return self.words_upto(n)[self.start]

    # ------------------------------------------------------------ symbol classes
    def generating(self):
        gen = set()
        ch = True
        while ch:
            ch = False
            for h, b in self.prods:
                if h not in gen and all(k == 'T' or x in gen for k, x in b):
                    gen.add(h)
                    ch = True
        return gen

    def nullable(self):
        nl = set()
        ch = True
        while ch:
            ch = False
            for h, b in self.prods:
                if h not in nl and all(k == 'V' and x in nl for k, x in b):
                    nl.add(h)
                    ch = True
        return nl

    def reachable(self):
        """set of ('V',x)/('T',x) occurring in a sentential form derivable from the start symbol"""
        if self.start is None:
            return set()
        seen = {('V', self.start)}
        todo = [self.start]
        while todo:
            v = todo.pop()
            for h, b in self.prods:
                if h == v:
                    for s in b:
                        if s not in seen:
                            seen.add(s)
                            if s[0] == 'V':
                                todo.append(s[1])
        return seen

    def useful_prods(self):
        """productions whose symbols are all generating and whose head is reachable through such productions"""
        gen = self.generating()
        if self.start is None or self.start not in gen:
            return []
        prods = [(h, b) for h, b in self.prods if h in gen and all(k == 'T' or x in gen for k, x in b)]
        seen = {self.start}
        todo = [self.start]
        while todo:
            v = todo.pop()
            for h, b in prods:
                if h == v:
                    for k, x in b:
                        if k == 'V' and x not in seen:
                            seen.add(x)
                            todo.append(x)
        return [(h, b) for h, b in prods if h in seen]

    def is_empty(self):
        return self.start is None or self.start not in self.generating()

    def is_finite(self):
        prods = self.useful_prods()
        if not prods:
            return True
        ne = set()
        ch = True
        while ch:
            ch = False
            for h, b in prods:
                if h not in ne and any(k == 'T' or x in ne for k, x in b):
                    ne.add(h)
                    ch = True
        edges = collections.defaultdict(set)
        for h, b in prods:
            for i, (k, x) in enumerate(b):
                if k == 'V':
                    grow = any((kk == 'T' or xx in ne) for j, (kk, xx) in enumerate(b) if j != i)
                    edges[h].add((x, grow))

        def reach(a):
            s = {a}
            t = [a]
            while t:
                u = t.pop()
                for (v, _g) in edges[u]:
                    if v not in s:
                        s.add(v)
                        t.append(v)
            return s
        for a in list(edges):
            for (b_, g) in edges[a]:
                if g and a in reach(b_):
                    return False
        return True

    def is_finite_by_lengths(self, bound=None):
        """independent second opinion: the language is infinite iff it has a word whose length is in
        (p, 2p] where p = pumping bound of the CNF-free estimate; computed with length sets."""
        prods = self.useful_prods()
        if not prods:
            return True
        nv = len({h for h, _ in prods})
        m = max([len(b) for _, b in prods] + [2])
        p = m ** (nv + 1)
        if bound is not None:
            p = min(p, bound)
        lim = 2 * p
        L = {v: set() for v in self.vars}
        ch = True
        while ch:
            ch = False
            for h, b in prods:
                parts = {0}
                for k, x in b:
                    if k == 'T':
                        parts = {q + 1 for q in parts if q + 1 <= lim}
                    else:
                        parts = {q + w for q in parts for w in L[x] if q + w <= lim}
                    if not parts:
                        break
                new = parts - L[h]
                if new:
                    L[h] |= new
                    ch = True
        return not any(p < ln <= lim for ln in L[self.start])

    # ------------------------------------------------------------ LL(1) sets
    def first_sets(self):
        """FIRST(A) for every variable: set of terminals, plus None for epsilon"""
        nl = self.nullable()
        first = {v: set() for v in self.vars}
        ch = True
        while ch:
            ch = False
            for h, b in self.prods:
                add = set()
                alln = True
                for k, x in b:
                    if k == 'T':
                        add.add(x)
                        alln = False
                        break
                    add |= first[x] - {None}
                    if x not in nl:
                        alln = False
                        break
                if alln:
                    add.add(None)
                if not add <= first[h]:
                    first[h] |= add
                    ch = True
        return first

    def first_of_body(self, body, first=None):
        first = first or self.first_sets()
        out = set()
        for k, x in body:
            if k == 'T':
                out.add(x)
                return out
            out |= first[x] - {None}
            if None not in first[x]:
                return out
        out.add(None)
        return out

    def follow_sets(self, end=None):
        end = END if end is None else end
        first = self.first_sets()
        follow = {v: set() for v in self.vars}
        if self.start is not None:
            follow[self.start].add(end)
        ch = True
        while ch:
            ch = False
            for h, b in self.prods:
                for i, (k, x) in enumerate(b):
                    if k != 'V':
                        continue
                    rest = self.first_of_body(b[i + 1:], first)
                    add = rest - {None}
                    if None in rest:
                        add |= follow[h]
                    if not add <= follow[x]:
                        follow[x] |= add
                        ch = True
        return follow

    def is_ll1(self):
        first = self.first_sets()
        follow = self.follow_sets()
        by_head = collections.defaultdict(list)
        for h, b in self.prods:
            by_head[h].append(b)
        for h, bodies in by_head.items():
            preds = []
            for b in bodies:
                f = self.first_of_body(b, first)
                p = f - {None}
                if None in f:
                    p |= follow[h]
                preds.append(p)
            for i in range(len(preds)):
                for j in range(i + 1, len(preds)):
                    if preds[i] & preds[j]:
                        return False
        return True

    def desc(self):
        return {"start": enc(self.start),
                "prods": sorted(([enc(h), [[k, enc(x)] for k, x in b]] for h, b in self.prods),
                                key=repr)}

    def prod_set(self):
        return set(self.prods)


# ---------------------------------------------------------------------- descriptions
def from_desc(d):
    prods = [(dec(h), tuple((k, dec(x)) for k, x in b)) for h, b in d["prods"]]
    return RefCFG(dec(d.get("start")), prods, [dec(v) for v in d.get("variables", [])],
                  [dec(t) for t in d.get("terminals", [])])


def build_lib(d, cls=None):
    """library CFG from a description, through CFG(...)+Production or CFG.from_text"""
    from pyformlang.cfg import CFG, Variable, Terminal, Production
    cls = cls or CFG
    if d.get("how") == "text":
        return cls.from_text(to_text(d), Variable(dec(d["start"])))
    ps = [Production(Variable(dec(h)), [Variable(dec(x)) if k == 'V' else Terminal(dec(x)) for k, x in b])
          for h, b in d["prods"]]
    kw = {}
    if d.get("variables"):
        kw["variables"] = {Variable(dec(v)) for v in d["variables"]}
    if d.get("terminals"):
        kw["terminals"] = {Terminal(dec(t)) for t in d["terminals"]}
    start = d.get("start")
    return cls(start_symbol=Variable(dec(start)) if start is not None else None,
               productions=set(ps), **kw)


def to_text(d):
    """text form (from_text syntax) of a description over token-friendly names:
    variables capitalised, terminals lower-case; otherwise explicit markers are used"""
    lines = []
    for h, b in d["prods"]:
        body = []
        for k, x in b:
            x = str(dec(x))
            if k == 'V':
                body.append(x if x[0].isupper() else '"VAR:%s"' % x)
            else:
                body.append(x if not x[0].isupper() else '"TER:%s"' % x)
        hs = str(dec(h))
        hs = hs if hs[0].isupper() else '"VAR:%s"' % hs
        lines.append("%s -> %s" % (hs, " ".join(body) if body else "$"))
    return "\n".join(lines)


def lib_to_ref(g):
    """extract a library grammar through start_symbol / productions / variables / terminals"""
    from pyformlang.cfg import Variable, Epsilon
    ps = []
    for p in g.productions:
        ps.append((p.head.value, tuple(('V', x.value) if isinstance(x, Variable) else ('T', x.value)
                                       for x in p.body if not isinstance(x, Epsilon))))
    return RefCFG(g.start_symbol.value if g.start_symbol is not None else None, ps,
                  [v.value for v in g.variables], [t.value for t in g.terminals])


def max_word_length(R, cap=400):
    """for a finite language: length of its longest word (None if empty); lengths by fixpoint up to cap"""
    prods = R.useful_prods()
    if not prods:
        return None
    L = {v: set() for v in R.vars}
    ch = True
    while ch:
        ch = False
        for h, b in prods:
            parts = {0}
            for k, x in b:
                if k == 'T':
                    parts = {q + 1 for q in parts if q + 1 <= cap}
                else:
                    parts = {q + w for q in parts for w in L[x] if q + w <= cap}
                if not parts:
                    break
            new = parts - L[h]
            if new:
                L[h] |= new
                ch = True
    return max(L[R.start]) if L[R.start] else None
