"""Reference models for feature structures (graph unification by union-find) and feature grammars
(ground instantiation into a plain CFG)."""
import itertools

from hypothesis import strategies as st

from .ref_cfg import RefCFG

DOMAIN = ["u", "v"]


# ====================================================================== feature structures
# JSON description of a feature structure: a list of nodes; node = {"value": v|None, "content": {feat: node_index}}
# node 0 is the root; sharing (re-entrancy) = two features pointing at the same node index.
class Graph:
    """union-find graph unification on node ids"""

    def __init__(self):
        self.parent = []
        self.value = []
        self.content = []

    def new(self, value=None):
        self.parent.append(len(self.parent))
        self.value.append(value)
        self.content.append({})
        return len(self.parent) - 1

    def find(self, x):
        while self.parent[x] != x:
            self.parent[x] = self.parent[self.parent[x]]
            x = self.parent[x]
        return x

    def load(self, desc):
        """returns the root id of a loaded description"""
        ids = [self.new(n.get("value")) for n in desc]
        for i, n in zip(ids, desc):
            for f, j in n.get("content", {}).items():
                self.content[i][f] = ids[j]
        return ids[0]

    def unify(self, a, b):
        """returns False on clash"""
        a, b = self.find(a), self.find(b)
        if a == b:
            return True
        va, vb = self.value[a], self.value[b]
        if va is not None and vb is not None and va != vb:
            return False
        # an atomic value and sub-features on the same node cannot be combined in a consistently typed structure
        self.parent[b] = a
        if va is None:
            self.value[a] = vb
        cb = self.content[b]
        for f, j in cb.items():
            if f in self.content[a]:
                if not self.unify(self.content[a][f], j):
                    return False
            else:
                self.content[self.find(a)][f] = j
        return True

    def observe(self, root, max_depth=6):
        """({path: value}, partition of paths into shared nodes) of the structure under root"""
        paths = {}
        node_of = {}

        def walk(n, path, depth):
            n = self.find(n)
            node_of[path] = n
            paths[path] = self.value[n]
            if depth >= max_depth:
                return
            for f in sorted(self.content[n]):
                walk(self.content[n][f], path + (f,), depth + 1)
        walk(root, (), 0)
        groups = {}
        for p, n in node_of.items():
            groups.setdefault(n, set()).add(p)
        partition = {frozenset(g) for g in groups.values()}
        return paths, partition


def build_lib_fs(desc, ask=False):
    """library FeatureStructure from a node-list description through the public API"""
    from pyformlang.fcfg.feature_structure import FeatureStructure
    nodes = [FeatureStructure(n.get("value")) for n in desc]
    for fs, n in zip(nodes, desc):
        for f, j in n.get("content", {}).items():
            fs.add_content(f, nodes[j])
            if ask:
                # the structure answers queries while it is being built (nested nodes gain features afterwards)
                nodes[0].get_all_paths()
                repr(nodes[0])
    return nodes[0]


def observe_lib_fs(fs, max_depth=6):
    """same observation on a library structure: {path: value} and partition of paths by (dereferenced) node"""
    paths = {}
    node_of = {}

    def walk(n, path, depth):
        d = n.get_dereferenced()
        node_of[path] = id(d)
        paths[path] = n.value
        if depth >= max_depth:
            return
        for f in sorted(d.content):
            walk(d.content[f], path + (f,), depth + 1)
    walk(fs, (), 0)
    groups = {}
    for p, n in node_of.items():
        groups.setdefault(n, set()).add(p)
    return paths, {frozenset(g) for g in groups.values()}


SIGNATURE = {          # consistently typed: atomic features and complex features with fixed sub-signatures
    "root": {"num": "atom", "per": "atom", "agr": "AGR", "subj": "SUBJ"},
    "AGR": {"num": "atom", "per": "atom"},
    "SUBJ": {"agr": "AGR", "case": "atom"},
}
ATOMS = ["sg", "pl", "x3"]
FALSY_ATOMS = [0, "", 1]        # legal atomic values that are falsy (only None means "unspecified")


@st.composite
def fs_desc(draw, share=True, falsy=None):
    """a consistently typed structure (node list); re-entrancy by pointing two same-typed features at one node"""
    nodes = [{"value": None, "content": {}}]
    pool = {"atom": [], "AGR": [], "SUBJ": []}
    if falsy is None:
        falsy = draw(st.sampled_from([0, 0, 0, 1])) == 1
    atoms = FALSY_ATOMS if falsy else ATOMS

    def make(typ, depth):
        if share and pool[typ] and draw(st.integers(0, 3)) == 0:
            return draw(st.sampled_from(pool[typ]))
        idx = len(nodes)
        if typ == "atom":
            v = draw(st.sampled_from(atoms + [None]))
            nodes.append({"value": v, "content": {}})
        else:
            nodes.append({"value": None, "content": {}})
            for f, t in sorted(SIGNATURE[typ].items()):
                if draw(st.integers(0, 2)) > 0 and depth < 3:
                    nodes[idx]["content"][f] = make(t, depth + 1)
        pool[typ].append(idx)
        return idx
    for f, t in sorted(SIGNATURE["root"].items()):
        if draw(st.integers(0, 2)) > 0:
            nodes[0]["content"][f] = make(t, 1)
    return nodes


def fs_to_text(desc):
    """text form of a description (None when it has none): an atomic feature without value is written as a
    variable ?v<node>, so two features sharing such a node share the variable; a shared complex node, a value that
    is not a non-empty string and a node that is complex and empty have no text form"""
    count = {}
    for n in desc:
        for j in n.get("content", {}).values():
            count[j] = count.get(j, 0) + 1

    def txt(i):
        n = desc[i]
        parts = []
        for f, j in sorted(n["content"].items()):
            c = desc[j]
            if c["content"]:
                if count.get(j, 0) > 1:
                    return None    # a shared complex node cannot be written
                inner = txt(j)
                if inner is None:
                    return None
                parts.append("%s=[%s]" % (f, inner))
            elif c["value"] is not None:
                if count.get(j, 0) > 1 or not isinstance(c["value"], str) or not c["value"]:
                    return None    # only non-empty strings can be written in the text form
                parts.append("%s=%s" % (f, c["value"]))
            else:
                parts.append("%s=?v%d" % (f, j))
        return ",".join(parts)
    return txt(0)


# ====================================================================== feature grammars
# description: {"start": "S", "sig": {"S": ["n"], "A": ["n", "p"]},
#   "prods": [[head, {feat: val}, [["V", name, {feat: val}] | ["T", a], ...]], ...]}
# val = "u" | "v" | "?x" (variable, scope = the production); an absent feature is unspecified.
@st.composite
def fcfg_desc(draw, features=True, eps=True):
    names = ["S", "A", "B"][:draw(st.sampled_from([2, 3, 2, 1]))]
    sig = {}
    for nme in names:
        sig[nme] = draw(st.sampled_from([["n"], ["n", "p"], [], ["n"]])) if features else []
    terms = ["a", "b"]
    nprods = draw(st.sampled_from([3, 4, 5, 2, 6]))
    prods = []
    for _ in range(nprods):
        head = draw(st.sampled_from(names))
        k = draw(st.sampled_from([2, 1, 2, 3, 1] + ([0] if eps else [])))
        body = []
        for _i in range(k):
            if draw(st.integers(0, 1)) == 0:
                body.append(["T", draw(st.sampled_from(terms))])
            else:
                body.append(["V", draw(st.sampled_from(names)), {}])
        vals = st.sampled_from(["?x", "u", "v", "?x", "?y", None, "u"])

        def feats(nme):
            out = {}
            for f in sig[nme]:
                v = draw(vals)
                if v is not None:
                    out[f] = v
            return out
        hf = feats(head)
        for b in body:
            if b[0] == "V":
                b[2] = feats(b[1])
        p = [head, hf, body]
        if p not in prods:
            prods.append(p)
    # most variables get a terminal production
    for nme in names:
        if draw(st.integers(0, 3)) > 0:
            hf = {f: draw(st.sampled_from(["u", "v", None, "u"])) for f in sig[nme]}
            hf = {f: v for f, v in hf.items() if v is not None}
            p = [nme, hf, [["T", draw(st.sampled_from(terms))]]]
            if p not in prods:
                prods.append(p)
    # agreement through empty constituents: a variable that vanishes with either value of a feature, next to
    # productions that bind the same feature variable in several places
    if features and eps and draw(st.sampled_from([0, 1])) == 1:
        cands = [nme for nme in names if sig[nme]]
        # the vanishing variable is not one that already occurs twice in a body or recursively: such grammars make
        # the library's chart parser enumerate exponentially many states (they still occur without this bias)
        calm = [nme for nme in cands
                if not any(sum(1 for b in body if b[0] == "V" and b[1] == nme) >= 2 or
                           (h == nme and any(b[0] == "V" and b[1] == nme for b in body)) for h, _hf, body in prods)]
        if calm:
            nme = draw(st.sampled_from(calm))
            f = sig[nme][0]
            for val in ("u", "v"):
                p = [nme, {f: val}, []]
                if p not in prods:
                    prods.append(p)
            k = draw(st.sampled_from([2, 3]))
            body = [["V", draw(st.sampled_from(cands)), None] for _ in range(k)]
            if draw(st.booleans()):
                body[-1] = ["V", nme, None]
            for b in body:
                b[2] = {sig[b[1]][0]: "?x"}
            # not recursive through this production: S -> S S S over vanishing constituents makes the library's
            # chart parser enumerate exponentially many states
            heads = [h for h in names if all(b[1] != h for b in body)]
            if heads:
                head = draw(st.sampled_from(heads))
                p = [head, ({sig[head][0]: "?x"} if sig[head] and draw(st.booleans()) else {}), body]
                if p not in prods:
                    prods.append(p)
    # one head with a feature variable and several alternatives that use it (written on one line with | when the
    # case asks for the alternatives syntax)
    others_ = [nme for nme in names if sig[nme]]
    if features and others_ and draw(st.sampled_from([0, 0, 1])) == 1:
        h = draw(st.sampled_from(others_))
        f = sig[h][0]
        b1, b2 = draw(st.sampled_from(others_)), draw(st.sampled_from(others_))
        group = [[h, {f: "?x"}, [["T", draw(st.sampled_from(terms))]]],
                 [h, {f: "?x"}, [["V", b1, {sig[b1][0]: "?x"}]]],
                 [h, {f: "?x"}, [["T", draw(st.sampled_from(terms))], ["V", b2, {sig[b2][0]: "?x"}]]]]
        for p in group[:draw(st.sampled_from([2, 3]))]:
            if p not in prods and not (len(p[2]) == 1 and p[2][0][0] == "V" and p[2][0][1] == h):
                prods.append(p)
    # re-entrancy against no re-entrancy: twin productions of a two-feature variable, one sharing a value between
    # its features and one not, under a production that hands the two features to two different constituents
    two = [nme for nme in names if len(sig[nme]) == 2]
    others = [nme for nme in names if sig[nme]]
    if features and two and draw(st.sampled_from([0, 0, 1])) == 1:
        a = draw(st.sampled_from(two))
        f1, f2 = sig[a]
        t = draw(st.sampled_from(terms))
        twins = [[a, {f1: "?z", f2: "?z"}, [["T", t]]],
                 [a, draw(st.sampled_from([{f1: "?w", f2: "?k"}, {}, {f1: "?w"}])), [["T", t]]]]
        rest = [nme for nme in others if nme != a] or others
        x, y = draw(st.sampled_from(rest)), draw(st.sampled_from(rest))
        # the consumer is not recursive (see the note on vanishing constituents above)
        heads = [h for h in names if h not in (a, x, y)]
        consumer = [draw(st.sampled_from(heads)) if heads else None, {},
                    [["V", a, {f1: "?x", f2: "?y"}], ["V", x, {sig[x][0]: "?x"}], ["V", y, {sig[y][0]: "?y"}]]]
        if draw(st.booleans()):
            consumer[2] = [consumer[2][1], consumer[2][0], consumer[2][2]]
        extra = twins + ([consumer] if consumer[0] is not None else [])
        for nme, val, tt in ((x, "u", "b"), (y, "v", "a")):
            extra.append([nme, {sig[nme][0]: val}, [["T", tt]]])
        for p in extra:
            if p not in prods:
                prods.append(p)
    return {"start": "S", "sig": sig, "prods": prods}


def _feat_text(fd):
    if not fd:
        return ""
    return "[" + ",".join("%s=%s" % (f, v) for f, v in sorted(fd.items())) + "]"


def fcfg_text(d, alternatives=False):
    """one production per line (features written without blanks: the reader splits bodies on whitespace).
    alternatives=True merges productions with the same head and head features into one line with |"""
    lines = []
    if alternatives:
        groups = {}
        for h, hf, body in d["prods"]:
            # variables are scoped per line: productions are merged when every variable of the body is one of the
            # head's (each alternative then refers to the head's variables only, exactly as on a line of its own)
            head_vars = {v for v in hf.values() if str(v).startswith("?")}
            body_vars = {v for b in body if b[0] == "V" for v in b[2].values() if str(v).startswith("?")}
            key = (h, _feat_text(hf)) if body_vars <= head_vars else (h, _feat_text(hf), len(groups))
            groups.setdefault(key, []).append(body)
        for key, bodies in groups.items():
            alts = []
            for body in bodies:
                alts.append(" ".join((b[1] + _feat_text(b[2])) if b[0] == "V" else b[1] for b in body) or "$")
            lines.append("%s%s -> %s" % (key[0], key[1], " | ".join(alts)))
        return "\n".join(lines)
    for h, hf, body in d["prods"]:
        bt = " ".join((b[1] + _feat_text(b[2])) if b[0] == "V" else b[1] for b in body) or "$"
        lines.append("%s%s -> %s" % (h, _feat_text(hf), bt))
    return "\n".join(lines)


VALUE_MAPS = {"text": {"u": "u", "v": "v"}, "falsy": {"u": 0, "v": 1}, "empty": {"u": "", "v": "x"},
              "int_str": {"u": 1, "v": "1"}}


def build_lib_fcfg_api(d, valmap):
    """the grammar built through the constructors (FeatureProduction / FeatureStructure), the abstract values u, v
    replaced by valmap's values; a feature variable is one FeatureStructure object shared inside the production"""
    from pyformlang.cfg import Variable, Terminal
    from pyformlang.fcfg import FCFG, FeatureStructure, FeatureProduction
    prods = []
    for h, hf, body in d["prods"]:
        shared = {}

        def fs_of(fd):
            fs = FeatureStructure()
            for f, v in sorted(fd.items()):
                if v.startswith("?"):
                    if v not in shared:
                        shared[v] = FeatureStructure()
                    fs.add_content(f, shared[v])
                else:
                    fs.add_content(f, FeatureStructure(valmap[v]))
            return fs
        head_fs = fs_of(hf)
        lib_body, body_fs = [], []
        for b in body:
            if b[0] == "V":
                lib_body.append(Variable(b[1]))
                body_fs.append(fs_of(b[2]))
            else:
                lib_body.append(Terminal(b[1]))
                body_fs.append(FeatureStructure())
        prods.append(FeatureProduction(Variable(h), lib_body, head_fs, body_fs))
    return FCFG(start_symbol=Variable(d["start"]), productions=prods)


def skeleton(d):
    """plain productions (head, body) of a feature grammar description"""
    out = set()
    for h, _hf, body in d["prods"]:
        out.add((h, tuple(('V', b[1]) if b[0] == "V" else ('T', b[1]) for b in body)))
    return out


def ground(d):
    """ground instantiation: every feature variable and every omitted feature takes every value consistently"""
    sig = d["sig"]
    prods = []

    def full(nme, fd, env, fresh):
        """all complete assignments of nme's signature compatible with fd under env"""
        opts = []
        for f in sig[nme]:
            v = fd.get(f)
            if v is None:
                opts.append(DOMAIN)
            elif v.startswith("?"):
                opts.append([env[v]])
            else:
                opts.append([v])
        for combo in itertools.product(*opts):
            yield (nme, tuple(zip(sig[nme], combo)))
    for h, hf, body in d["prods"]:
        vars_ = sorted({v for v in hf.values() if v.startswith("?")} |
                       {v for b in body if b[0] == "V" for v in b[2].values() if v.startswith("?")})
        for vals in itertools.product(DOMAIN, repeat=len(vars_)):
            env = dict(zip(vars_, vals))
            slots = [list(full(h, hf, env, None))]
            for b in body:
                if b[0] == "V":
                    slots.append(list(full(b[1], b[2], env, None)))
                else:
                    slots.append([("T", b[1])])
            for combo in itertools.product(*slots):
                head = combo[0]
                bd = tuple(('T', c[1]) if c[0] == "T" and len(c) == 2 and not isinstance(c[1], tuple)
                           else ('V', c) for c in combo[1:])
                prods.append((head, bd))
    starts = list(full(d["start"], {}, {}, None))
    top = ("#start#",)
    for s in starts:
        prods.append((top, (('V', s),)))
    return RefCFG(top, prods)
