"""known_findings.json: committed list of genuine defects (open / fixed).

Never written at run time.  Entry:
 {"id": "F07d", "property": "C07", "status": "open"|"fixed", "commit": "<sha>" (fixed),
  "what": "...", "sub": "<sub-check>", "kind": "<failure kind prefix>",
  "predicate": "<name of a function in the property module's PREDICATES>",
  "excludes": ["generator flag", ...], "witness": "regress/C07/F07d.json"}
"""
import json
import os

from .common import ROOT, HarnessError

_PATH = os.path.join(ROOT, "known_findings.json")
_cache = None


def load():
    global _cache
    if _cache is None:
        if os.path.exists(_PATH):
            with open(_PATH) as fh:
                _cache = json.load(fh)
        else:
            _cache = []
    return _cache


def entries(prop):
    return [e for e in load() if e["property"] == prop]


def open_entries(prop):
    return [e for e in entries(prop) if e["status"] == "open"]


def open_flags(prop):
    """generator feature flags switched off while a finding is open"""
    out = set()
    for e in open_entries(prop):
        out.update(e.get("excludes", []))
    return out


def matches(mod, entry, case, failure):
    if entry.get("sub") and failure["sub"] != entry["sub"]:
        return False
    if entry.get("kind") and not failure["kind"].startswith(entry["kind"]):
        return False
    pred = entry.get("predicate")
    if pred:
        fn = getattr(mod, "PREDICATES", {}).get(pred)
        if fn is None:
            raise HarnessError("unknown predicate %s" % pred)
        return bool(fn(case, failure))
    return True


def attribute(mod, open_list, case, failure):
    for e in open_list:
        if matches(mod, e, case, failure):
            return e["id"]
    return None
