"""Reference PDA acceptance: pop-summary fixpoint, exact for every word, terminates on
stack-growing epsilon cycles.  transitions: (q, a|None, X, p, push) with push[0] = new top."""
import json

from .common import dec, enc

EPS = None


class RefPDA:
    def __init__(self, start, start_stack, finals, trans, states=()):
        self.start = start
        self.z0 = start_stack
        self.finals = set(finals)
        self.trans = []
        seen = set()
        for t in trans:
            t = (t[0], t[1], t[2], t[3], tuple(t[4]))
            if t not in seen:
                seen.add(t)
                self.trans.append(t)
        self.by = {}
        for t in self.trans:
            self.by.setdefault((t[0], t[2]), []).append(t)
        self.states = set(states) | {t[0] for t in self.trans} | {t[3] for t in self.trans} | self.finals
        if start is not None:
            self.states.add(start)
        self.alphabet = {t[1] for t in self.trans if t[1] is not EPS}

    def _pop_table(self, w):
        """pop[(q, X, i)] = set of (p, j): from state q with X on top at input position i the automaton can
        reach state p at position j having removed X (and everything pushed meanwhile)"""
        n = len(w)
        pop = {}
        changed = True
        while changed:
            changed = False
            for (q, a, X, r, push) in self.trans:
                for i in range(n + 1):
                    if a is EPS:
                        i1 = i
                    elif i < n and w[i] == a:
                        i1 = i + 1
                    else:
                        continue
                    cur = {(r, i1)}
                    for Y in push:
                        nxt = set()
                        for (s, k) in cur:
                            nxt |= pop.get((s, Y, k), set())
                        cur = nxt
                        if not cur:
                            break
                    if cur:
                        tgt = pop.setdefault((q, X, i), set())
                        if not cur <= tgt:
                            tgt |= cur
                            changed = True
        return pop

    def accepts_empty_stack(self, w):
        if self.start is None or self.z0 is None:
            return False
        w = list(w)
        pop = self._pop_table(w)
        return any(j == len(w) for (_p, j) in pop.get((self.start, self.z0, 0), ()))

    def accepts_final(self, w):
        if self.start is None or self.z0 is None:
            return False
        w = list(w)
        n = len(w)
        pop = self._pop_table(w)
        seen = set()
        todo = [(self.start, 0, (self.z0,))]
        while todo:
            node = todo.pop()
            if node in seen:
                continue
            seen.add(node)
            q, i, st = node
            if q in self.finals and i == n:
                return True
            if not st:
                continue
            X = st[0]
            rest = st[1:]
            for (p, j) in pop.get((q, X, i), ()):
                todo.append((p, j, rest))
            for (_q, a, _X, r, push) in self.by.get((q, X), ()):
                if a is EPS:
                    i1 = i
                elif i < n and w[i] == a:
                    i1 = i + 1
                else:
                    continue
                # the rest of the stack below X is irrelevant for reaching a final state: drop it
                todo.append((r, i1, tuple(push)))
        return False

    def lang_empty_stack(self, words):
        return {tuple(w) for w in words if self.accepts_empty_stack(w)}

    def lang_final(self, words):
        return {tuple(w) for w in words if self.accepts_final(w)}

    def desc(self):
        return {"start": enc(self.start), "z0": enc(self.z0), "finals": sorted(map(enc, self.finals), key=repr),
                "trans": sorted(([enc(q), enc(a), enc(X), enc(r), [enc(y) for y in push]]
                                 for q, a, X, r, push in self.trans), key=repr)}


def brute_force(R, w, mode, max_steps=14, max_stack=6):
    """independent bounded configuration search (under-approximation; exact without epsilon moves)"""
    if R.start is None or R.z0 is None:
        return False
    w = list(w)
    n = len(w)
    seen = set()
    todo = [(R.start, 0, (R.z0,), 0)]
    while todo:
        q, i, st, steps = todo.pop()
        if (q, i, st) in seen:
            continue
        seen.add((q, i, st))
        if i == n and ((mode == "final" and q in R.finals) or (mode == "empty" and not st)):
            return True
        if not st or steps >= max_steps:
            continue
        for (_q, a, _X, r, push) in R.by.get((q, st[0]), ()):
            if a is EPS:
                i1 = i
            elif i < n and w[i] == a:
                i1 = i + 1
            else:
                continue
            ns = tuple(push) + st[1:]
            if len(ns) <= max_stack:
                todo.append((r, i1, ns, steps + 1))
    return False


def from_desc(d):
    return RefPDA(dec(d.get("start")), dec(d.get("z0")), [dec(f) for f in d.get("finals", [])],
                  [(dec(q), dec(a), dec(X), dec(r), tuple(dec(y) for y in push))
                   for q, a, X, r, push in d["trans"]], [dec(s) for s in d.get("states", [])])


def repr_key(j):
    """a hashable key of a JSON-encoded value"""
    return json.dumps(j, sort_keys=True)


def build_lib(d):
    from pyformlang.pda import PDA
    if d.get("how") == "ctor_tf":
        # the textbook 7-tuple: every component handed to the constructor, the transition function built
        # beforehand from State / Symbol / StackSymbol objects of its own (equal to, not identical with, the others)
        from pyformlang.pda import State, Symbol, StackSymbol, Epsilon
        from pyformlang.pda.transition_function import TransitionFunction
        tf = TransitionFunction()
        states, syms, stack = set(), set(), set()
        for (q, a, X, r, push) in d["trans"]:
            tf.add_transition(State(dec(q)), Epsilon() if a is None else Symbol(dec(a)), StackSymbol(dec(X)),
                              State(dec(r)), [StackSymbol(dec(y)) for y in push])
            states |= {repr_key(q), repr_key(r)}
            if a is not None:
                syms.add(repr_key(a))
            stack |= {repr_key(X)} | {repr_key(y) for y in push}
        for s in d.get("states", []):
            states.add(repr_key(s))
        return PDA(states={dec(json.loads(s)) for s in states}, input_symbols={dec(json.loads(s)) for s in syms},
                   stack_alphabet={dec(json.loads(s)) for s in stack}, transition_function=tf,
                   start_state=dec(d["start"]) if d.get("start") is not None else None,
                   start_stack_symbol=dec(d["z0"]) if d.get("z0") is not None else None,
                   final_states={dec(f) for f in d.get("finals", [])})
    if d.get("how") == "ctor":
        p = PDA(start_state=dec(d["start"]) if d.get("start") is not None else None,
                start_stack_symbol=dec(d["z0"]) if d.get("z0") is not None else None,
                final_states={dec(f) for f in d.get("finals", [])} or None,
                states={dec(s) for s in d.get("states", [])} or None)
    else:
        p = PDA()
        if d.get("start") is not None:
            p.set_start_state(dec(d["start"]))
        if d.get("z0") is not None:
            p.set_start_stack_symbol(dec(d["z0"]))
        for f in d.get("finals", []):
            p.add_final_state(dec(f))
    for (q, a, X, r, push) in d["trans"]:
        p.add_transition(dec(q), "epsilon" if a is None else dec(a), dec(X), dec(r), [dec(y) for y in push])
    return p


def from_lib(p):
    """extract a library PDA through states, start_state, final_states, to_dict() and the start stack
    symbol read from to_networkx() (its only public observer)"""
    from pyformlang.pda import Epsilon
    trans = []
    for (q, a, X), outs in p.to_dict().items():
        for (r, push) in outs:
            trans.append((q.value, EPS if isinstance(a, Epsilon) else a.value, X.value, r.value,
                          tuple(s.value for s in push if not isinstance(s, Epsilon))))
    g = p.to_networkx()
    z0 = None
    for node in g.nodes:
        # the hidden node carrying the start stack symbol: named INITIAL_STACK_HIDDEN (plus padding when a
        # state has that name) and, unlike state nodes, without the is_start attribute
        if isinstance(node, str) and node.startswith("INITIAL_STACK_HIDDEN") and "is_start" not in g.nodes[node]:
            z0 = json.loads(g.nodes[node]["label"])
    return RefPDA(p.start_state.value if p.start_state is not None else None, z0,
                  [s.value for s in p.final_states], trans, [s.value for s in p.states])
