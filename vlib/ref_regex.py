"""Reference regex semantics for the documented pyformlang Regex syntax.

AST (JSON): ["sym", s] | ["eps"] | ["union", l, r] | ["concat", l, r] | ["star", x]
Token list: ["S", name] (a symbol) | "epsilon" | "$" | "(" | ")" | "|" | "+" | "." | "*" | "J"
("J" = juxtaposition: concatenation written as a blank).
"""
import itertools

from hypothesis import strategies as st

from .ref_fa import RefNFA, EPS

SPECIAL1 = set(".|+*()$")
PREC = {"union": 1, "concat": 2, "star": 3, "sym": 4, "eps": 4}

SYMS_PLAIN = ["a", "b", "c", "ab", "abc", "a1", "x_y", "b-2", "0", "d"]
SYMS_ESCAPED = ["*", "|", "(", ")", ".", "+", "$"]


# ---------------------------------------------------------------- strategies
def ast_strategy(symbols, max_depth=4, eps=True):
    leaf_choices = [st.sampled_from(symbols).map(lambda s: ["sym", s])] * 6
    if eps:
        leaf_choices.append(st.just(["eps"]))
    leaf = st.one_of(*leaf_choices)

    def extend(children):
        return st.one_of(
            st.tuples(st.just("concat"), children, children).map(list),
            st.tuples(st.just("union"), children, children).map(list),
            st.tuples(st.just("concat"), children, children).map(list),
            st.tuples(st.just("star"), children).map(list),
        )
    return st.recursive(leaf, extend, max_leaves=8)


def depth(ast):
    return 1 + max([depth(c) for c in ast[1:] if isinstance(c, list)] + [0])


def render_tokens(draw, ast, redundant=True):
    """token list of an AST; parentheses where precedence needs them plus random redundant ones.
    Right operands of the same binary operator are parenthesised or not at random (both readings
    denote the same language, operators being associative)."""
    kind = ast[0]

    def sub(child, minprec):
        toks = render_tokens(draw, child, redundant)
        need = PREC[child[0]] < minprec
        if need or (redundant and draw(st.integers(0, 6)) == 0):
            return ["("] + toks + [")"]
        return toks
    if kind == "sym":
        return [["S", ast[1]]]
    if kind == "eps":
        return [draw(st.sampled_from(["$", "epsilon"]))]
    if kind == "union":
        return sub(ast[1], 1) + [draw(st.sampled_from(["|", "+"]))] + sub(ast[2], 1)
    if kind == "concat":
        return sub(ast[1], 2) + [draw(st.sampled_from(["J", "."]))] + sub(ast[2], 2)
    return sub(ast[1], 4) + ["*"]


def tok_text(t):
    if isinstance(t, list):
        s = t[1]
        if s in SPECIAL1:
            return "\\" + s
        return s
    return "" if t == "J" else t


def _wordlike(t):
    return isinstance(t, list) or t == "epsilon"


def render_text(draw, toks, spacey=True):
    """join tokens: a blank is mandatory between two word-like tokens (symbols, the word epsilon,
    escaped operators) and for a juxtaposition between them; elsewhere blanks are optional."""
    out = []
    n = len(toks)
    for i, t in enumerate(toks):
        if t == "J":
            prv, nxt = toks[i - 1], toks[i + 1]
            if (_wordlike(prv) and _wordlike(nxt)) or (spacey and draw(st.integers(0, 2)) > 0):
                out.append(" ")
            continue
        if out and out[-1] != " ":
            prev = toks[i - 1]
            if _wordlike(prev) and _wordlike(t):
                out.append(" ")      # never glue two word-like tokens together
            elif spacey and draw(st.integers(0, 3)) == 0:
                out.append(" " * draw(st.integers(1, 2)))
        out.append(tok_text(t))
    return "".join(out)


def render_plain(toks):
    """deterministic rendering with single blanks between all tokens (ill-formed side)"""
    return " ".join(tok_text(t) for t in toks if t != "J")


# ---------------------------------------------------------------- strict recogniser
def parse_tokens(toks):
    """strict parser of the documented grammar over a token list (J already a token).
    returns AST or raises ValueError."""
    toks = list(toks)
    pos = [0]

    def peek():
        return toks[pos[0]] if pos[0] < len(toks) else None

    def atom_start(t):
        return t is not None and (isinstance(t, list) or t in ("epsilon", "$", "("))

    def parse_e():
        left = parse_t()
        while peek() in ("|", "+"):
            pos[0] += 1
            right = parse_t()
            left = ["union", left, right]
        return left

    def parse_t():
        left = parse_f()
        while True:
            t = peek()
            if t in (".", "J"):
                pos[0] += 1
                right = parse_f()
                left = ["concat", left, right]
            elif atom_start(t):
                right = parse_f()
                left = ["concat", left, right]
            else:
                return left

    def parse_f():
        a = parse_a()
        while peek() == "*":
            pos[0] += 1
            a = ["star", a]
        return a

    def parse_a():
        t = peek()
        if isinstance(t, list):
            pos[0] += 1
            return ["sym", t[1]]
        if t in ("epsilon", "$"):
            pos[0] += 1
            return ["eps"]
        if t == "(":
            pos[0] += 1
            e = parse_e()
            if peek() != ")":
                raise ValueError("missing )")
            pos[0] += 1
            return e
        raise ValueError("unexpected %r" % (t,))
    e = parse_e()
    if pos[0] != len(toks):
        raise ValueError("trailing %r" % (toks[pos[0]],))
    return e


def label_tokens(toks):
    """'ok' (in the documented grammar), 'ill' (must be refused) or 'grey' (free)"""
    toks = [t for t in toks if t != "J"]
    try:
        parse_tokens(toks)
        return "ok"
    except (ValueError, IndexError):
        pass
    d = 0
    for t in toks:
        if t == "(":
            d += 1
        elif t == ")":
            d -= 1
            if d < 0:
                return "ill"
    if d != 0:
        return "ill"
    prev = None
    for t in toks:
        if t in ("|", "+", ".", "*") and (prev is None or prev == "(" or prev in ("|", "+", ".")):
            return "ill"
        prev = t
    return "grey"


# ---------------------------------------------------------------- semantics
def thompson(ast):
    cnt = itertools.count()
    trans = []

    def go(a):
        s, f = next(cnt), next(cnt)
        k = a[0]
        if k == "sym":
            trans.append((s, a[1], f))
        elif k == "eps":
            trans.append((s, EPS, f))
        elif k == "empty":
            pass
        elif k == "union":
            for c in a[1:]:
                cs, cf = go(c)
                trans.append((s, EPS, cs))
                trans.append((cf, EPS, f))
        elif k == "concat":
            ls, lf = go(a[1])
            rs, rf = go(a[2])
            trans.extend([(s, EPS, ls), (lf, EPS, rs), (rf, EPS, f)])
        elif k == "star":
            cs, cf = go(a[1])
            trans.extend([(s, EPS, f), (s, EPS, cs), (cf, EPS, cs), (cf, EPS, f)])
        else:
            raise ValueError(k)
        return s, f
    s, f = go(ast)
    return RefNFA([s, f], [s], [f], trans)


def symbols_of(ast):
    if ast[0] == "sym":
        return {ast[1]}
    out = set()
    for c in ast[1:]:
        if isinstance(c, list):
            out |= symbols_of(c)
    return out


def operators_of(ast):
    out = set()
    if ast[0] in ("union", "concat", "star"):
        out.add(ast[0])
    for c in ast[1:]:
        if isinstance(c, list):
            out |= operators_of(c)
    return out


def precedence_decides(ast):
    """some child has lower-or-different precedence than its parent without needing parentheses:
    e.g. a star or concat directly under a union, a star under a concat"""
    k = ast[0]
    for c in ast[1:]:
        if isinstance(c, list):
            if k in ("union", "concat") and c[0] in ("concat", "star") and PREC[c[0]] > PREC[k]:
                return True
            if precedence_decides(c):
                return True
    return False


def language_upto(ast, n):
    """bounded language of an AST by structural recursion (independent of the Thompson construction)"""
    k = ast[0]
    if k == "sym":
        return {(ast[1],)} if n >= 1 else set()
    if k == "eps":
        return {()}
    if k == "union":
        return language_upto(ast[1], n) | language_upto(ast[2], n)
    if k == "concat":
        A, B = language_upto(ast[1], n), language_upto(ast[2], n)
        return {u + v for u in A for v in B if len(u) + len(v) <= n}
    if k == "star":
        A = language_upto(ast[1], n) - {()}
        res = {()}
        cur = {()}
        while cur:
            nxt = {u + v for u in cur for v in A if len(u) + len(v) <= n} - res
            res |= nxt
            cur = nxt
        return res
    raise ValueError(k)
