"""Shared helpers: JSON <-> python values, failures, watchdog, canonical hashing."""
import hashlib
import json
import os
import signal
import sys
import traceback

ROOT = os.path.dirname(os.path.dirname(os.path.abspath(__file__)))
REPO = os.environ.get("VERIF_REPO", "/repo")


class Inconclusive(BaseException):
    """Raised by the watchdog: the case ran too long; never a violation.  A BaseException so that no
    `except Exception` of a property module (or of the library) can turn it into a failure or swallow it."""


class CaseFailed(Exception):
    """raised inside a hypothesis test body / state machine when a case has un-attributed failures"""


class TooManyInconclusive(BaseException):
    """the shard stops generating: the library does not answer on several tiny inputs"""


class HarnessError(Exception):
    """A problem of the checking machinery itself (exit code 2)."""


def dec(j):
    """JSON description -> python value (tagged dicts become tuples / frozensets)."""
    if isinstance(j, dict):
        if "t" in j:
            return tuple(dec(x) for x in j["t"])
        if "fs" in j:
            return frozenset(dec(x) for x in j["fs"])
        raise HarnessError("bad tagged value %r" % (j,))
    if isinstance(j, list):
        return tuple(dec(x) for x in j)
    return j


def enc(v):
    """python value -> JSON description."""
    if isinstance(v, tuple):
        return {"t": [enc(x) for x in v]}
    if isinstance(v, frozenset):
        return {"fs": sorted((enc(x) for x in v), key=canon)}
    if isinstance(v, (set, list)):
        return [enc(x) for x in v]
    return v


def canon(j):
    return json.dumps(j, sort_keys=True, separators=(",", ":"), default=repr)


def case_hash(case):
    return hashlib.sha1(canon(case).encode()).hexdigest()


def fail(sub, kind, detail=None):
    """A failure record: sub-check name, kind of failure, free detail."""
    return {"sub": sub, "kind": kind, "detail": _short(detail)}


def _short(x, n=600):
    if x is None:
        return None
    s = x if isinstance(x, str) else repr(x)
    return s if len(s) <= n else s[:n] + "..."


def lib_frame(exc):
    """innermost pyformlang frame of an exception: 'file.py:function'."""
    tb = traceback.extract_tb(exc.__traceback__)
    for fr in reversed(tb):
        if "pyformlang" in fr.filename:
            return "%s:%s" % (os.path.basename(fr.filename), fr.name)
    return "harness"


def exc_failure(sub, exc):
    """Turn an exception raised by library code into a failure record.
    Exceptions whose innermost frames are only in harness code are re-raised
    as harness errors by `guard`."""
    return fail(sub, "exception:%s@%s" % (type(exc).__name__, lib_frame(exc)),
                str(exc)[:300])


class guard:
    """with guard(failures, "sub"): library calls ...
    Library exceptions become failures; Inconclusive and harness exceptions propagate."""

    def __init__(self, failures, sub, allowed=()):
        self.failures = failures
        self.sub = sub
        self.allowed = tuple(allowed)
        self.raised = None

    def __enter__(self):
        return self

    def __exit__(self, et, ev, tb):
        if et is None:
            return False
        if issubclass(et, (Inconclusive, HarnessError, KeyboardInterrupt,
                           SystemExit, GeneratorExit)):
            return False
        if issubclass(et, MemoryError):
            # memory exhausted on a tiny input: same status as the watchdog
            raise Inconclusive("memory limit")
        if issubclass(et, RecursionError) and RecursionError not in self.allowed:
            # deep recursion in library code on a tiny input is a failure of
            # the library, deep recursion in the harness is not expected
            pass
        self.raised = ev
        if self.allowed and issubclass(et, self.allowed):
            return True
        if lib_frame(ev) == "harness" and not issubclass(et, RecursionError):
            return False  # harness bug: propagate, worker exits 2
        self.failures.append(exc_failure(self.sub, ev))
        return True


class watchdog:
    """SIGALRM based per-case limit; raises Inconclusive inside the case."""

    def __init__(self, seconds):
        self.seconds = seconds

    def _handler(self, signum, frame):
        raise Inconclusive("watchdog %ss" % self.seconds)

    def __enter__(self):
        self.old = signal.signal(signal.SIGALRM, self._handler)
        # repeated alarms: an exception raised inside a gc callback or a __del__ is swallowed by
        # the interpreter, the next alarm gets another chance
        signal.setitimer(signal.ITIMER_REAL, self.seconds, 0.25)
        return self

    def __exit__(self, et, ev, tb):
        signal.setitimer(signal.ITIMER_REAL, 0)
        signal.signal(signal.SIGALRM, self.old)
        return False


def check_repo_import(prop=None):
    """pyformlang must come from the tree under test."""
    import pyformlang
    # every sub-package and its third-party dependencies are imported here, before any watchdog is armed: an
    # import interrupted by the watchdog's exception leaves half-initialised modules behind (seen once in 240 soak
    # runs: "module 'networkx' has no attribute 'exception'" for the rest of that worker's life)
    import importlib
    subs = ("finite_automaton", "regular_expression", "cfg", "cfg.llone_parser", "cfg.recursive_decent_parser",
            "pda", "pda.transition_function", "fst", "indexed_grammar", "fcfg", "fcfg.feature_structure", "rsa")
    if prop == "C17":
        # one fixed finding of C17 (F17d, a missing import inside IndexedGrammar.intersection) only shows in a
        # process that has not imported the other sub-packages: for this check only the package under test is loaded
        subs = ("indexed_grammar",)
    for sub in subs:
        importlib.import_module("pyformlang." + sub)
    import networkx.exception  # noqa: F401
    import numpy  # noqa: F401
    path = os.path.realpath(pyformlang.__file__)
    root = os.path.realpath(REPO)
    if not path.startswith(root + os.sep):
        raise HarnessError("pyformlang imported from %s, expected under %s" % (path, root))
    return path


def bucket_of(f):
    return "%s|%s" % (f["sub"], f["kind"])


def words_upto(alphabet, n):
    """all words (tuples) of length <= n over alphabet (sorted by repr)."""
    import itertools
    alphabet = sorted(alphabet, key=repr)
    out = []
    for k in range(n + 1):
        out.extend(itertools.product(alphabet, repeat=k))
    return out


def eprint(*a):
    print(*a, file=sys.stderr, flush=True)
