"""Independent reference semantics for finite automata.

Written against the textbook definitions; shares no code with pyformlang.
A RefNFA is (states, starts, finals, delta) with delta[(p, a)] -> set of
states, a being a symbol value or EPS (None).
"""
from collections import deque
import itertools

EPS = None


class RefNFA:
    def __init__(self, states, starts, finals, trans, alphabet=()):
        self.states = set(states) | set(starts) | set(finals)
        self.starts = set(starts)
        self.finals = set(finals)
        self.delta = {}
        self.alphabet = set(alphabet)
        self.trans = []
        for p, a, q in trans:
            self.states.add(p)
            self.states.add(q)
            if q not in self.delta.setdefault((p, a), set()):
                self.delta[(p, a)].add(q)
                self.trans.append((p, a, q))
            if a is not EPS:
                self.alphabet.add(a)

    # ---------------------------------------------------------- semantics
    def eclose(self, S):
        S = set(S)
        todo = list(S)
        while todo:
            p = todo.pop()
            for q in self.delta.get((p, EPS), ()):
                if q not in S:
                    S.add(q)
                    todo.append(q)
        return frozenset(S)

    def step(self, S, a):
        T = set()
        for p in S:
            T |= self.delta.get((p, a), set())
        return self.eclose(T)

    def initial(self):
        return self.eclose(self.starts)

    def accepts(self, word):
        S = self.initial()
        for a in word:
            S = self.step(S, a)
            if not S:
                return False
        return bool(S & self.finals)

    def is_final_set(self, S):
        return bool(S & self.finals)

    def words_upto(self, n, alphabet=None):
        """set of accepted words (tuples) of length <= n"""
        alphabet = sorted(self.alphabet if alphabet is None else alphabet, key=repr)
        res = set()
        if n < 0:
            return res
        co = self.coreachable()          # only prefixes that can still be completed are extended
        frontier = {(): self.initial() & co}
        if not frontier[()]:
            return res
        for k in range(n + 1):
            nxt = {}
            for w, S in frontier.items():
                if S & self.finals:
                    res.add(w)
                if k < n:
                    for a in alphabet:
                        T = self.step(S, a) & co
                        if T:
                            nxt[w + (a,)] = T
            frontier = nxt
            if not frontier:
                break
        return res

    # ---------------------------------------------------------- graph facts
    def successors(self):
        adj = {s: set() for s in self.states}
        for (p, _a), T in self.delta.items():
            adj[p] |= T
        return adj

    def reachable(self):
        adj = self.successors()
        seen = set(self.starts)
        todo = list(seen)
        while todo:
            p = todo.pop()
            for q in adj[p]:
                if q not in seen:
                    seen.add(q)
                    todo.append(q)
        return seen

    def coreachable(self):
        co = set(self.finals)
        changed = True
        while changed:
            changed = False
            for (p, _a), T in self.delta.items():
                if p not in co and T & co:
                    co.add(p)
                    changed = True
        return co

    def is_empty(self):
        return not (self.reachable() & self.finals)

    def has_reachable_cycle(self):
        """a cycle (incl. self loops and epsilon loops) among states reachable from a start state"""
        adj = self.successors()
        color = {}
        for root in sorted(self.reachable(), key=repr):
            if root in color:
                continue
            stack = [(root, iter(sorted(adj[root], key=repr)))]
            color[root] = 1
            while stack:
                node, it = stack[-1]
                for v in it:
                    c = color.get(v)
                    if c == 1:
                        return True
                    if c is None:
                        color[v] = 1
                        stack.append((v, iter(sorted(adj[v], key=repr))))
                        break
                else:
                    color[node] = 2
                    stack.pop()
        return False

    def is_deterministic_def(self):
        """<=1 start state, <=1 successor per (state, symbol), no epsilon move to another state"""
        if len(self.starts) > 1:
            return False
        for (p, a), T in self.delta.items():
            if a is EPS:
                if T - {p}:
                    return False
            elif len(T) > 1:
                return False
        return True

    def has_eps(self):
        return any(a is EPS and T for (_p, a), T in self.delta.items())

    def has_eps_cycle(self):
        sub = RefNFA(self.states, self.states, [], [(p, a, q) for (p, a, q) in self.trans if a is EPS])
        return sub.has_reachable_cycle()

    def is_finite_language(self):
        """finite iff no cycle through a useful (reachable and co-reachable) state...
        computed on the trim part: a cycle among useful states that is not a pure
        epsilon cycle... For simplicity: language finite iff the determinised trim
        automaton is acyclic."""
        d = self.determinise()
        t = d.trim()
        return not t.has_reachable_cycle()

    # ---------------------------------------------------------- constructions
    def determinise(self, alphabet=None, complete=False):
        """subset construction; states are frozensets; complete adds the empty set sink"""
        alphabet = sorted(self.alphabet if alphabet is None else alphabet, key=repr)
        start = self.initial()
        seen = {start}
        todo = [start]
        trans = []
        while todo:
            S = todo.pop()
            for a in alphabet:
                T = self.step(S, a)
                if not T and not complete:
                    continue
                trans.append((S, a, T))
                if T not in seen:
                    seen.add(T)
                    todo.append(T)
        finals = [S for S in seen if S & self.finals]
        return RefNFA(seen, [start], finals, trans, alphabet)

    def trim(self):
        keep = self.reachable() & self.coreachable()
        return RefNFA(keep, self.starts & keep, self.finals & keep,
                      [(p, a, q) for (p, a, q) in self.trans if p in keep and q in keep],
                      self.alphabet)

    def minimal_dfa(self):
        """canonical minimal partial DFA (trim) of the language: Moore refinement
        on the determinised trim automaton.  States are ints; returns RefNFA."""
        d = self.determinise().trim()
        if not d.states:
            return RefNFA([], [], [], [], self.alphabet)
        alphabet = sorted(d.alphabet, key=repr)
        block = {s: (1 if s in d.finals else 0) for s in d.states}
        while True:
            sig = {}
            for s in d.states:
                row = [block[s]]
                for a in alphabet:
                    T = d.delta.get((s, a))
                    row.append(block[next(iter(T))] if T else -1)
                sig[s] = tuple(row)
            ids = {}
            for s in sorted(d.states, key=lambda x: repr(sorted(map(repr, x)))):
                ids.setdefault(sig[s], len(ids))
            new = {s: ids[sig[s]] for s in d.states}
            if len(set(new.values())) == len(set(block.values())):
                block = new
                break
            block = new
        trans = set()
        for (p, a), T in d.delta.items():
            for q in T:
                trans.add((block[p], a, block[q]))
        return RefNFA(set(block.values()), {block[s] for s in d.starts},
                      {block[s] for s in d.finals}, sorted(trans, key=repr), d.alphabet)

    def reverse(self):
        return RefNFA(self.states, self.finals, self.starts,
                      [(q, a, p) for (p, a, q) in self.trans], self.alphabet)

    def complement(self, alphabet):
        d = self.determinise(alphabet, complete=True)
        return RefNFA(d.states, d.starts, d.states - d.finals, d.trans, alphabet)

    def desc(self):
        return {"states": sorted(self.states, key=repr), "starts": sorted(self.starts, key=repr),
                "finals": sorted(self.finals, key=repr), "trans": sorted(self.trans, key=repr)}


def product(A, B):
    trans = []
    for (p, a, q) in A.trans:
        if a is EPS:
            for s in B.states:
                trans.append(((p, s), EPS, (q, s)))
        else:
            for (r, b, t) in B.trans:
                if b == a and b is not EPS:
                    trans.append(((p, r), a, (q, t)))
    for (r, b, t) in B.trans:
        if b is EPS:
            for s in A.states:
                trans.append(((s, r), EPS, (s, t)))
    return RefNFA([(p, r) for p in A.states for r in B.states],
                  [(p, r) for p in A.starts for r in B.starts],
                  [(p, r) for p in A.finals for r in B.finals], trans,
                  A.alphabet & B.alphabet)


def _tag(A, k):
    return RefNFA([(k, s) for s in A.states], [(k, s) for s in A.starts],
                  [(k, s) for s in A.finals],
                  [((k, p), a, (k, q)) for (p, a, q) in A.trans], A.alphabet)


def union(A, B):
    A, B = _tag(A, 0), _tag(B, 1)
    return RefNFA(A.states | B.states, A.starts | B.starts, A.finals | B.finals,
                  A.trans + B.trans, A.alphabet | B.alphabet)


def concat(A, B):
    A, B = _tag(A, 0), _tag(B, 1)
    link = [(f, EPS, s) for f in A.finals for s in B.starts]
    return RefNFA(A.states | B.states, A.starts, B.finals, A.trans + B.trans + link,
                  A.alphabet | B.alphabet)


def star(A):
    A = _tag(A, 0)
    new = ("star",)
    link = [(new, EPS, s) for s in A.starts] + [(f, EPS, new) for f in A.finals]
    return RefNFA(A.states | {new}, [new], [new], A.trans + link, A.alphabet)


def equivalent(A, B, alphabet=None):
    """None if L(A)==L(B) over alphabet (default: union), else a shortest distinguishing word."""
    if alphabet is None:
        alphabet = A.alphabet | B.alphabet
    alphabet = sorted(alphabet, key=repr)
    start = (A.initial(), B.initial())
    seen = {start}
    todo = deque([(start, ())])
    while todo:
        (S, T), w = todo.popleft()
        if A.is_final_set(S) != B.is_final_set(T):
            return w
        for a in alphabet:
            nxt = (A.step(S, a), B.step(T, a))
            if nxt not in seen:
                seen.add(nxt)
                todo.append((nxt, w + (a,)))
    return None


def isomorphic_dfa(A, B):
    """A, B deterministic (<=1 start, <=1 successor), all states reachable: is there a
    bijection of states preserving start, finals and transitions?"""
    if len(A.states) != len(B.states) or len(A.starts) != len(B.starts):
        return False
    if not A.starts:
        return not A.states and not B.states
    a0, = A.starts
    b0, = B.starts
    m = {a0: b0}
    inv = {b0: a0}
    todo = [a0]
    while todo:
        p = todo.pop()
        r = m[p]
        if (p in A.finals) != (r in B.finals):
            return False
        syms_a = {a for (s, a) in A.delta if s == p and A.delta[(s, a)]}
        syms_b = {a for (s, a) in B.delta if s == r and B.delta[(s, a)]}
        if syms_a != syms_b:
            return False
        for a in syms_a:
            q, = A.delta[(p, a)]
            t, = B.delta[(r, a)]
            if q in m:
                if m[q] != t:
                    return False
            else:
                if t in inv:
                    return False
                m[q] = t
                inv[t] = q
                todo.append(q)
    return len(m) == len(A.states)


def pairwise_distinguishable(D):
    """for a deterministic RefNFA: no two different states have the same right language"""
    sts = sorted(D.states, key=repr)
    for p, q in itertools.combinations(sts, 2):
        P = RefNFA(D.states, [p], D.finals, D.trans, D.alphabet)
        Q = RefNFA(D.states, [q], D.finals, D.trans, D.alphabet)
        if equivalent(P, Q) is None:
            return (p, q)
    return None


# ------------------------------------------------------------------ library side
def from_lib(fa):
    """Extract a pyformlang finite automaton into a RefNFA using only public observers."""
    from pyformlang.finite_automaton import Epsilon
    trans = []
    for s, a, t in fa:
        lab = EPS if isinstance(a, Epsilon) else a.value
        trans.append((s.value, lab, t.value))
    return RefNFA([s.value for s in fa.states],
                  [s.value for s in fa.start_states],
                  [s.value for s in fa.final_states], trans,
                  [a.value for a in fa.symbols])


def from_desc(d):
    from .common import dec
    return RefNFA([dec(s) for s in d.get("states", [])],
                  [dec(s) for s in d["starts"]], [dec(s) for s in d["finals"]],
                  [(dec(p), dec(a), dec(q)) for p, a, q in d["trans"]],
                  [dec(a) for a in d.get("symbols", [])])


def build_lib(d):
    """Build the library automaton of class d['cls'] from a description through the public API."""
    from pyformlang.finite_automaton import (EpsilonNFA, NondeterministicFiniteAutomaton,
                                             DeterministicFiniteAutomaton, Epsilon)
    from .common import dec
    cls = {"enfa": EpsilonNFA, "nfa": NondeterministicFiniteAutomaton,
           "dfa": DeterministicFiniteAutomaton}[d.get("cls", "enfa")]
    how = d.get("how", "mut")
    states = [dec(s) for s in d.get("states", [])]
    starts = [dec(s) for s in d["starts"]]
    finals = [dec(s) for s in d["finals"]]
    extra_syms = {dec(a) for a in d.get("symbols", [])}
    if how == "ctor_tf":
        # the textbook 5-tuple: every component handed to the constructor, the transition function built beforehand
        # from State / Symbol objects of its own (equal to, not identical with, those of the other components)
        from pyformlang.finite_automaton import (State, Symbol, TransitionFunction,
                                                 NondeterministicTransitionFunction)
        tf = TransitionFunction() if cls is DeterministicFiniteAutomaton else NondeterministicTransitionFunction()
        all_states, syms = list(states) + starts + finals, set(extra_syms)
        for p, a, q in d["trans"]:
            tf.add_transition(State(dec(p)), Epsilon() if a is None else Symbol(dec(a)), State(dec(q)))
            all_states += [dec(p), dec(q)]
            if a is not None:
                syms.add(dec(a))
        kw = {"states": set(all_states), "input_symbols": syms, "transition_function": tf,
              "final_states": set(finals)}
        if cls is DeterministicFiniteAutomaton:
            if starts:
                kw["start_state"] = starts[0]
        else:
            kw["start_state"] = set(starts)
        return cls(**kw)
    if how == "ctor":
        kw = {"states": set(states), "final_states": set(finals)}
        if extra_syms:
            kw["input_symbols"] = extra_syms
        if cls is DeterministicFiniteAutomaton:
            if starts:
                kw["start_state"] = starts[0]
        else:
            kw["start_state"] = set(starts)
        fa = cls(**kw)
        trans = [(dec(p), Epsilon() if a is None else dec(a), dec(q)) for p, a, q in d["trans"]]
        fa.add_transitions(trans)
    else:
        # extra (isolated) states can only be declared through the constructor
        fa = cls(states=set(states)) if states else cls()
        order = d.get("order", "tsf")
        count = [0]
        first_sym = [dec(a) for _p, a, _q in d["trans"] if a is not None][:1]

        def ask():
            """how == "mut_q": the automaton answers queries while it is being built (their results are not used)"""
            if how != "mut_q":
                return
            count[0] += 1
            fa.accepts([])
            fa.accepts(first_sym)
            fa.is_deterministic()
            if count[0] % 3 == 0 and len(d["trans"]) <= 8:
                fa.is_equivalent_to(fa.copy())
                fa.minimize()
        # (a description derived from another one may have gained a transition equal to a scaffolding one)
        removed = [t for t in d.get("removed", []) if t not in d["trans"]]
        for step in order:
            if step == "t":
                for p, a, q in d["trans"] + removed:
                    fa.add_transition(dec(p), Epsilon() if a is None else dec(a), dec(q))
                    ask()
                # scaffolding transitions are taken away again
                for p, a, q in removed:
                    fa.remove_transition(dec(p), Epsilon() if a is None else dec(a), dec(q))
                    ask()
            elif step == "s":
                for s in starts:
                    fa.add_start_state(s)
                    ask()
            elif step == "f":
                for s in finals:
                    fa.add_final_state(s)
                    ask()
        for a in extra_syms:
            fa.add_symbol(a)
    return fa


