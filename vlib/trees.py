"""Validity predicates for parse trees and derivations handed out by pyformlang."""
MAX_NODES = 100000      # a real derivation may be large (vanishing subtrees); beyond this the case is inconclusive


def _kind(v):
    from pyformlang.cfg import Variable, Terminal, Epsilon
    if isinstance(v, Variable):
        return ('V', v.value)
    if isinstance(v, Terminal):
        return ('T', v.value)
    if isinstance(v, Epsilon):
        return ('E', None)
    return ('?', repr(v))


def validate_tree(tree, prods, start, word):
    """tree: library ParseTree; prods: set of (head, body tuple of ('V'|'T', x)); returns list of problem strings.
    A real derivation tree: root = start symbol; every inner node with its children (explicit epsilon leaves
    ignored) is a production; a variable without children needs an epsilon production; terminal leaves spell word."""
    problems = []
    root = _kind(tree.value)
    if root != ('V', start):
        problems.append("root_is_not_start:%r" % (root,))
    leaves = []
    budget = [MAX_NODES]
    seen_ids = set()

    def visit(node):
        budget[0] -= 1
        if budget[0] < 0:
            raise OverflowError
        if id(node) in on_path:
            problems.append("cyclic_tree")
            raise OverflowError
        on_path.add(id(node))
        k = _kind(node.value)
        sons = list(node.sons)
        if k[0] == 'V':
            body = tuple(_kind(s.value) for s in sons)
            body = tuple(b for b in body if b[0] != 'E')
            if (k[1], body) not in prods:
                problems.append("not_a_production:%r->%r" % (k[1], body))
            for s in sons:
                visit(s)
        elif k[0] == 'T':
            if sons:
                problems.append("terminal_with_children")
            leaves.append(k[1])
        elif k[0] == 'E':
            if sons:
                problems.append("epsilon_with_children")
        else:
            problems.append("strange_node:%r" % (k,))
        on_path.discard(id(node))
    on_path = set()
    try:
        visit(tree)
    except RecursionError:
        from .common import Inconclusive
        raise Inconclusive("parse tree too deep to validate")
    except OverflowError:
        if "cyclic_tree" not in problems:
            # size alone is never a violation: any finite tree whose nodes are productions is a real derivation
            from .common import Inconclusive
            raise Inconclusive("parse tree with more than %d nodes" % MAX_NODES)
        return problems
    if tuple(leaves) != tuple(word):
        problems.append("leaves_spell:%r" % (tuple(leaves),))
    return problems


def count_inner_with_2_children(tree, budget=MAX_NODES):
    n = 0
    todo = [tree]
    while todo and budget > 0:
        budget -= 1
        t = todo.pop()
        if len(t.sons) >= 2:
            n += 1
        todo.extend(t.sons)
    return n


def validate_derivation(steps, prods, start, word, leftmost=True):
    """steps: list of sentential forms (lists of CFG objects).  First form = [start]; each step rewrites exactly
    the leftmost (rightmost) variable by one production; last form = word (epsilon markers ignored)."""
    problems = []
    forms = []
    for f in steps:
        form = tuple(k for k in (_kind(x) for x in f) if k[0] != 'E')
        if any(k[0] == '?' for k in form):
            problems.append("strange_symbol")
            return problems
        forms.append(form)
    if not forms:
        return ["empty_derivation"]
    if forms[0] != (('V', start),):
        problems.append("first_form_is_not_start:%r" % (forms[0],))
    for a, b in zip(forms, forms[1:]):
        idxs = [i for i, k in enumerate(a) if k[0] == 'V']
        if not idxs:
            problems.append("step_from_terminal_form:%r->%r" % (a, b))
            break
        i = idxs[0] if leftmost else idxs[-1]
        head = a[i][1]
        pre, post = a[:i], a[i + 1:]
        if len(b) < len(pre) + len(post) or b[:len(pre)] != pre or (post and b[len(b) - len(post):] != post) \
                :
            problems.append("not_%s_rewrite:%r->%r" % ("leftmost" if leftmost else "rightmost", a, b))
            break
        body = b[len(pre):len(b) - len(post)] if post else b[len(pre):]
        if (head, tuple(body)) not in prods:
            problems.append("step_is_not_a_production:%r->%r" % (head, tuple(body)))
            break
    last = forms[-1]
    if any(k[0] == 'V' for k in last) or tuple(k[1] for k in last) != tuple(word):
        problems.append("last_form:%r" % (last,))
    return problems
