"""Hypothesis strategies producing JSON descriptions of finite automata.

A description: {"cls": "enfa"|"nfa"|"dfa", "how": "mut"|"ctor", "order": "tsf"...,
 "trans": [[p, a|null, q]...], "starts": [...], "finals": [...],
 "states": [extra isolated states], "symbols": [extra declared symbols]}
Values are JSON (tuples/frozensets as tagged dicts, see common.enc).
"""
from hypothesis import strategies as st
from .common import enc

# ---- state name pools -------------------------------------------------------
POOL_INT = [0, 1, 2, 3, 4]
POOL_STR = ["q0", "q1", "q2", "q3", "q4"]
POOL_MIXED = [0, "0", 1, "1", 2]
POOL_MERGED = ["0", "1", "0;1", "1;2", "2", "0; 1", "1; 0"]
POOL_RESERVED = ["TRASH", "TrashNode", "Empty", "Start", "0", "star"]
POOL_TUPLE = [(0, 1), (1, 0), (0,), ("a", 0), ()]
POOL_FSET = [frozenset([0]), frozenset([0, 1]), frozenset(), frozenset(["a"]), frozenset([1])]
POOL_PAIRISH = ["0", "1; 0", "0; 1", "1", "0; 1; 0"]

STATE_POOLS = {
    "int": POOL_INT, "str": POOL_STR, "mixed": POOL_MIXED, "merged": POOL_MERGED,
    "reserved": POOL_RESERVED, "tuple": POOL_TUPLE, "fset": POOL_FSET, "pairish": POOL_PAIRISH,
}
SAFE_POOLS = ["int", "str", "tuple", "fset"]
UNSAFE_POOLS = ["mixed", "merged", "reserved", "pairish"]

# ---- symbol pools -----------------------------------------------------------
SYM_POOLS = {
    "abc": ["a", "b", "c"],
    "multi": ["ab", "b", "abc"],
    "int": [0, 1, 2],
    "tuple": [(0,), ("a", 1), (1, 0)],
    "mixed": [1, "a", "1"],
    "tok": ["a1", "b_2", "c-3"],
}
PLAIN_SYM_POOLS = ["abc", "multi", "tok"]


def pool_strategy(names=None, weights=None):
    names = names or list(STATE_POOLS)
    return st.sampled_from(names)


@st.composite
def fa_desc(draw, cls=None, max_states=5, max_trans=12, state_pools=None, sym_pools=None,
            nsyms=None, eps_weight=0.3, allow_extra=True, classes=("enfa", "nfa", "dfa"),
            max_starts=3, force_syms=None):
    c = cls or draw(st.sampled_from(list(classes)))
    pool_name = draw(st.sampled_from(state_pools or list(STATE_POOLS)))
    pool = STATE_POOLS[pool_name]
    n = draw(st.integers(1, min(max_states, len(pool))))
    # a random subset of the pool, not a prefix: name collisions need specific members
    names = draw(st.lists(st.sampled_from(pool), min_size=n, max_size=n, unique_by=repr))
    if force_syms is not None:
        syms = list(force_syms)
        sym_pool_name = "forced"
    else:
        sym_pool_name = draw(st.sampled_from(sym_pools or list(SYM_POOLS)))
        sp = SYM_POOLS[sym_pool_name]
        k = nsyms or draw(st.integers(1, len(sp)))
        syms = sp[:k]
    labels = list(syms)
    has_eps = c == "enfa" and draw(st.booleans()) if eps_weight else False
    trans = []
    m = draw(st.integers(0, max_trans))
    seen = set()
    detkeys = set()
    for _ in range(m):
        p = draw(st.sampled_from(names))
        if has_eps and draw(st.integers(0, 9)) < 10 * eps_weight:
            a = None
        else:
            a = draw(st.sampled_from(labels))
        q = draw(st.sampled_from(names))
        key = (repr(p), repr(a), repr(q))
        if key in seen:
            continue
        if c == "dfa":
            if (key[0], key[1]) in detkeys:
                continue
            detkeys.add((key[0], key[1]))
        seen.add(key)
        trans.append((p, a, q))
    if c == "dfa":
        starts = draw(st.lists(st.sampled_from(names), max_size=1))
    else:
        starts = draw(st.lists(st.sampled_from(names), max_size=max_starts, unique_by=repr))
        if not starts and draw(st.integers(0, 3)) > 0:
            starts = [names[0]]
    finals = draw(st.lists(st.sampled_from(names), max_size=3, unique_by=repr))
    d = {"cls": c, "pool": pool_name, "sympool": sym_pool_name,
         "trans": [[enc(p), enc(a), enc(q)] for p, a, q in trans],
         "starts": [enc(s) for s in starts], "finals": [enc(s) for s in finals]}
    d["how"] = draw(st.sampled_from(["mut", "mut", "ctor"]))
    d["order"] = draw(st.sampled_from(["tsf", "sft", "fts", "stf"]))
    if allow_extra and draw(st.integers(0, 4)) == 0:
        used = {repr(x) for t in trans for x in (t[0], t[2])} | {repr(s) for s in starts + finals}
        extra = [s for s in names if repr(s) not in used]
        if extra:
            d["states"] = [enc(s) for s in extra]
    if allow_extra and force_syms is None and draw(st.integers(0, 5)) == 0:
        sp = SYM_POOLS[sym_pool_name]
        unused = [a for a in sp if a not in syms]
        if unused:
            d["symbols"] = [enc(unused[0])]
    return d


def alphabet_of(d):
    """symbol values (decoded) used or declared in a description"""
    from .common import dec
    out = []
    for _p, a, _q in d["trans"]:
        if a is not None:
            v = dec(a)
            if v not in out:
                out.append(v)
    for a in d.get("symbols", []):
        v = dec(a)
        if v not in out:
            out.append(v)
    return out


FOREIGN = "zz"   # a symbol never used by any pool
