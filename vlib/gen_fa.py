"""Hypothesis strategies producing JSON descriptions of finite automata.

A description: {"cls": "enfa"|"nfa"|"dfa", "how": "mut"|"mut_q" (queries interleaved with the build)|"ctor"|"ctor_tf", "order": "tsf"...,
 "trans": [[p, a|null, q]...], "starts": [...], "finals": [...],
 "states": [extra isolated states], "symbols": [extra declared symbols]}
Values are JSON (tuples/frozensets as tagged dicts, see common.enc).
"""
from hypothesis import strategies as st
from .common import enc

# ---- state name pools -------------------------------------------------------
POOL_INT = list(range(16))
POOL_STR = ["q%d" % i for i in range(16)]
POOL_MIXED = [0, "0", 1, "1", 2, "2", 3, "3"]
POOL_MERGED = ["0", "1", "0;1", "1;2", "2", "0; 1", "1; 0", "0;1;2", "0;2"]
POOL_RESERVED = ["TRASH", "TrashNode", "Empty", "Start", "0", "star"]
POOL_TUPLE = [(0, 1), (1, 0), (0,), ("a", 0), (), (1,), (2, 0), (0, 0)]
POOL_FSET = [frozenset([0]), frozenset([0, 1]), frozenset(), frozenset(["a"]), frozenset([1])]
POOL_PAIRISH = ["0", "1; 0", "0; 1", "1", "0; 1; 0"]

STATE_POOLS = {
    "int": POOL_INT, "str": POOL_STR, "mixed": POOL_MIXED, "merged": POOL_MERGED,
    "reserved": POOL_RESERVED, "tuple": POOL_TUPLE, "fset": POOL_FSET, "pairish": POOL_PAIRISH,
}
SAFE_POOLS = ["int", "str", "tuple", "fset"]
UNSAFE_POOLS = ["mixed", "merged", "reserved", "pairish"]

# ---- symbol pools -----------------------------------------------------------
SYM_POOLS = {
    "abc": ["a", "b", "c"],
    "multi": ["ab", "b", "abc"],
    "int": [0, 1, 2],
    "tuple": [(0,), ("a", 1), (1, 0)],
    "mixed": [1, "a", "1"],
    "tok": ["a1", "b_2", "c-3"],
}
PLAIN_SYM_POOLS = ["abc", "multi", "tok"]


def pool_strategy(names=None, weights=None):
    names = names or list(STATE_POOLS)
    return st.sampled_from(names)


@st.composite
def fa_desc(draw, cls=None, max_states=5, max_trans=12, state_pools=None, sym_pools=None,
            nsyms=None, eps_weight=0.3, allow_extra=True, classes=("enfa", "nfa", "dfa"),
            max_starts=3, force_syms=None, allow_big=True, big_states=(6, 8, 7, 9, 10, 12)):
    c = cls or draw(st.sampled_from(list(classes)))
    shape = draw(st.sampled_from([0, 0, 0, 0, 1, 0, 2, 0, 0, 0])) if allow_big else 0
    if shape == 1:
        return draw(chain_desc(c, force_syms))
    if shape == 2:
        return draw(dense_dag_desc(c, force_syms))
    pool_name = draw(st.sampled_from(state_pools or list(STATE_POOLS)))
    pool = STATE_POOLS[pool_name]
    # one case in six is "big": more states and transitions than the usual bounds (size-dependent code paths)
    big = draw(st.sampled_from([0, 0, 0, 1, 0, 0])) == 1 if allow_big else False
    if big:
        n = min(draw(st.sampled_from(list(big_states))), len(pool))
        max_trans = max(max_trans + 10, 2 * n + 6)
    else:
        n = min(draw(st.sampled_from([3, 4, 2, 5, 3, 4, 2, 5, 1])), max_states, len(pool))
    # a random subset of the pool, not a prefix: name collisions need specific members
    names = draw(st.lists(st.sampled_from(pool), min_size=n, max_size=n, unique_by=repr))
    if force_syms is not None:
        syms = list(force_syms)
        sym_pool_name = "forced"
    else:
        sym_pool_name = draw(st.sampled_from(sym_pools or list(SYM_POOLS)))
        sp = SYM_POOLS[sym_pool_name]
        k = nsyms or draw(st.integers(1, len(sp)))
        syms = sp[:k]
    labels = list(syms)
    has_eps = (c == "enfa" and draw(st.integers(0, 3)) < 3) if eps_weight else False
    lab = st.sampled_from(labels)
    if has_eps:
        k_eps = max(1, int(round(10 * eps_weight)))
        lab = st.sampled_from(labels * (10 - k_eps) + [None] * k_eps * len(labels))
    nlab = len(labels) + (1 if has_eps else 0)
    possible = n * len(labels) if c == "dfa" else n * n * nlab
    m = draw(st.sampled_from([2 * n, 2 * n + 2, 3 * n, n + 1, 2 * n + 1, n, max_trans, 1, 0]))
    m = min(m, max_trans, max(0, possible - (possible // 4)))
    raw = draw(st.lists(st.tuples(st.sampled_from(names), lab, st.sampled_from(names)),
                        min_size=m, max_size=m,
                        unique_by=(lambda t: (repr(t[0]), repr(t[1])) if c == "dfa" else repr(t))))
    trans = list(raw)
    def pick(k):
        k = min(k, len(names))
        if k == 0:
            return []
        return draw(st.lists(st.sampled_from(names), min_size=k, max_size=k, unique_by=repr))
    if c == "dfa":
        starts = pick(draw(st.sampled_from([1, 1, 1, 1, 1, 1, 0])))
    else:
        starts = pick(min(max_starts, draw(st.sampled_from([1, 1, 1, 1, 1, 2, 2, 3, 0]))))
    finals = pick(draw(st.sampled_from([1, 1, 1, 1, 2, 2, 3, 0])))
    d = {"cls": c, "pool": pool_name, "sympool": sym_pool_name,
         "trans": [[enc(p), enc(a), enc(q)] for p, a, q in trans],
         "starts": [enc(s) for s in starts], "finals": [enc(s) for s in finals]}
    if big:
        d["big"] = True
    d["how"] = draw(st.sampled_from(["mut", "ctor", "mut_q", "ctor_tf"]))
    d["order"] = draw(st.sampled_from(["tsf", "sft", "fts", "stf"]))
    if c != "dfa" and d["how"] in ("mut", "mut_q") and trans and draw(st.sampled_from([0, 0, 1])) == 1:
        # scaffolding: transitions that are added and then taken away again with remove_transition while the
        # automaton is built (between states and over labels that stay in use, so nothing else changes)
        ends = sorted({repr(x): x for t in trans for x in (t[0], t[2])}.items())
        labs = sorted({repr(t[1]): t[1] for t in trans}.items())
        cand = st.tuples(st.sampled_from([x for _r, x in ends]), st.sampled_from([x for _r, x in labs]),
                         st.sampled_from([x for _r, x in ends]))
        gone = [t for t in draw(st.lists(cand, min_size=1, max_size=2, unique_by=repr))
                if repr(t) not in {repr(u) for u in trans}]
        if gone:
            d["removed"] = [[enc(p), enc(a), enc(q)] for p, a, q in gone]
    if allow_extra and draw(st.integers(0, 4)) == 0:
        used = {repr(x) for t in trans for x in (t[0], t[2])} | {repr(s) for s in starts + finals}
        extra = [s for s in names if repr(s) not in used]
        if extra:
            d["states"] = [enc(s) for s in extra]
    if allow_extra and force_syms is None and draw(st.integers(0, 5)) == 0:
        sp = SYM_POOLS[sym_pool_name]
        unused = [a for a in sp if a not in syms]
        if unused:
            d["symbols"] = [enc(unused[0])]
    return d


@st.composite
def chain_desc(draw, c, force_syms=None):
    """a long chain 0 -> 1 -> ... -> n-1 (mostly epsilon edges for an EpsilonNFA) plus a few extra edges: long epsilon
    runs and long shortest paths that random dense automata practically never contain"""
    n = draw(st.sampled_from([6, 7, 10, 14, 11, 15]))
    names = (POOL_STR if draw(st.booleans()) else POOL_INT)[:n]
    syms = list(force_syms) if force_syms is not None else ["a", "b"]
    trans = []
    for i in range(n - 1):
        if c == "enfa" and draw(st.integers(0, 9)) < 7:
            a = None
        else:
            a = draw(st.sampled_from(syms))
        trans.append((names[i], a, names[i + 1]))
    for _ in range(draw(st.integers(0, 3))):
        p, q = draw(st.sampled_from(names)), draw(st.sampled_from(names))
        a = draw(st.sampled_from(syms))
        t = (p, a, q)
        if t not in trans and not (c == "dfa" and any(x[0] == p and x[1] == a for x in trans)):
            trans.append(t)
    finals = [names[-1]] + ([draw(st.sampled_from(names))] if draw(st.booleans()) else [])
    finals = [f for i, f in enumerate(finals) if f not in finals[:i]]
    return {"cls": c, "pool": "chain", "sympool": "forced" if force_syms is not None else "abc", "big": True,
            "trans": [[enc(p), enc(a), enc(q)] for p, a, q in trans], "starts": [enc(names[0])],
            "finals": [enc(f) for f in finals], "how": "mut", "order": "tsf"}


@st.composite
def dense_dag_desc(draw, c, force_syms=None):
    """a dense acyclic graph (every state has many predecessors and successors): fan-out / fan-in shapes that make
    work-list algorithms queue the same state many times; state names are shuffled so that visiting orders vary"""
    n = draw(st.sampled_from([6, 7, 8, 6]))
    pool = POOL_STR if draw(st.booleans()) else POOL_INT
    names = draw(st.permutations(pool[:n]))
    syms = list(force_syms) if force_syms is not None else ["a", "b", "c"]
    trans = []
    used = set()
    for i in range(n):
        for j in range(i + 1, n):
            if draw(st.integers(0, 9)) < 7:
                a = draw(st.sampled_from(syms + ([None] if c == "enfa" else [])))
                if c == "dfa":
                    free = [x for x in syms if (i, x) not in used]
                    if not free:
                        continue
                    a = free[0]
                used.add((i, a))
                trans.append((names[i], a, names[j]))
    starts = [names[0]] + ([names[1]] if c != "dfa" and draw(st.booleans()) else [])
    finals = [draw(st.sampled_from(list(names)))]
    return {"cls": c, "pool": "dense_dag", "sympool": "forced" if force_syms is not None else "abc", "big": True,
            "trans": [[enc(p), enc(a), enc(q)] for p, a, q in trans], "starts": [enc(x) for x in starts],
            "finals": [enc(f) for f in finals], "how": "mut", "order": "tsf"}


def alphabet_of(d):
    """symbol values (decoded) used or declared in a description"""
    from .common import dec
    out = []
    for _p, a, _q in d["trans"]:
        if a is not None:
            v = dec(a)
            if v not in out:
                out.append(v)
    for a in d.get("symbols", []):
        v = dec(a)
        if v not in out:
            out.append(v)
    return out


FOREIGN = "zz"   # a symbol never used by any pool


# ---------------------------------------------------------------- derived descriptions (C02)
def _used_states(d):
    from .common import dec
    out = []
    for p, _a, q in d["trans"]:
        for x in (p, q):
            if x not in out:
                out.append(x)
    for x in d["starts"] + d["finals"] + d.get("states", []):
        if x not in out:
            out.append(x)
    return out


def derive_preserving(draw, d):
    """a description with the same language as d but another structure"""
    kind = draw(st.sampled_from(["unreachable", "sink", "rename", "determinise", "dup_final_free"]))
    e = {k: (list(v) if isinstance(v, list) else v) for k, v in d.items()}
    e["trans"] = [list(t) for t in d["trans"]]
    syms = []
    for _p, a, _q in d["trans"]:
        if a is not None and a not in syms:
            syms.append(a)
    states = _used_states(d) or [0]
    if kind == "unreachable":
        new = "u9"
        for s in syms[:2]:
            e["trans"].append([new, s, draw(st.sampled_from(states + [new]))])
        if draw(st.booleans()):
            e["finals"] = e["finals"] + [new]
        if not syms:
            e["states"] = e.get("states", []) + [new]
        e["derived"] = "unreachable"
    elif kind == "sink":
        sink = "sink9"
        have = {(repr(p), repr(a)) for p, a, _q in d["trans"]}
        for s in states:
            for a in syms:
                if (repr(s), repr(a)) not in have:
                    e["trans"].append([s, a, sink])
        for a in syms:
            e["trans"].append([sink, a, sink])
        e["derived"] = "sink"
    elif kind == "rename":
        def ren(s):
            return {"t": ["r", s]}
        e["trans"] = [[ren(p), a, ren(q)] for p, a, q in d["trans"]]
        e["starts"] = [ren(s) for s in d["starts"]]
        e["finals"] = [ren(s) for s in d["finals"]]
        if "states" in d:
            e["states"] = [ren(s) for s in d["states"]]
        e["derived"] = "rename"
    elif kind == "determinise":
        from . import ref_fa
        R = ref_fa.from_desc(d)
        D = R.determinise()
        e = {"cls": "dfa", "how": "mut", "order": "tsf",
             "trans": [[enc(p), enc(a), enc(q)] for p, a, q in D.trans],
             "starts": [enc(s) for s in D.starts], "finals": [enc(s) for s in D.finals],
             "derived": "determinise"}
    else:
        # a second copy of every non-start state reached by the same edges (splits states)
        def cp(s):
            return {"t": ["c", s]}
        extra = []
        for p, a, q in d["trans"]:
            extra.append([p, a, cp(q)])
            extra.append([cp(p), a, q])
        if d["cls"] == "dfa":
            e["cls"] = "nfa"
        e["trans"] = e["trans"] + extra
        e["finals"] = e["finals"] + [cp(s) for s in d["finals"]]
        e["derived"] = "split"
    return e


def derive_changing(draw, d):
    """a minimal edit that usually changes the language (the oracle decides)"""
    e = {k: (list(v) if isinstance(v, list) else v) for k, v in d.items()}
    e["trans"] = [list(t) for t in d["trans"]]
    states = _used_states(d) or [0]
    kind = draw(st.sampled_from(["flip_final", "redirect", "drop_edge", "add_edge"]))
    if kind == "flip_final" or not e["trans"]:
        s = draw(st.sampled_from(states))
        if s in e["finals"]:
            e["finals"] = [x for x in e["finals"] if x != s]
        else:
            e["finals"] = e["finals"] + [s]
    elif kind == "redirect":
        i = draw(st.integers(0, len(e["trans"]) - 1))
        p, a, _q = e["trans"][i]
        q2 = draw(st.sampled_from(states))
        if [p, a, q2] not in e["trans"]:
            e["trans"][i] = [p, a, q2]
    elif kind == "drop_edge":
        i = draw(st.integers(0, len(e["trans"]) - 1))
        del e["trans"][i]
    else:
        syms = [a for _p, a, _q in d["trans"] if a is not None] or ["a"]
        t = [draw(st.sampled_from(states)), draw(st.sampled_from(syms)), draw(st.sampled_from(states))]
        if t not in e["trans"]:
            if not (d["cls"] == "dfa" and any(x[0] == t[0] and x[1] == t[1] for x in e["trans"])):
                e["trans"].append(t)
    e["derived"] = "changed:" + kind
    return e
