"""Coverage-guided supplement (atheris / libFuzzer) for the thorough tier.

The target is the property's own Hypothesis strategy driven by the fuzzer's bytes
(`test.hypothesis.fuzz_one_input`), so the generated cases stay inside the property's domain and the
semantic oracle (`run_case`) is inside the target.  pyformlang is instrumented for coverage feedback.

  python -m vlib.fuzz <PROP> <runs> <seed> <outdir>

Writes <outdir>/stats.json (periodically: atheris ends the process with os._exit) and, on the first
un-attributed failure, <outdir>/found.json (same format as a worker's `found` entry).
"""
import importlib
import json
import os
import sys
import time


def main():
    prop, runs, seed, outdir = sys.argv[1], int(sys.argv[2]), int(sys.argv[3]), sys.argv[4]
    os.makedirs(outdir, exist_ok=True)
    corpus = os.path.join(outdir, "corpus")
    os.makedirs(corpus, exist_ok=True)
    import atheris
    with atheris.instrument_imports(include=["pyformlang"]):
        import pyformlang.finite_automaton  # noqa: F401
        import pyformlang.regular_expression  # noqa: F401
        import pyformlang.cfg  # noqa: F401
    from hypothesis import given, settings, HealthCheck
    from .common import check_repo_import, watchdog, Inconclusive, bucket_of
    from . import findings
    check_repo_import()
    mod = importlib.import_module("props." + prop.lower())
    flags = findings.open_flags(mod.ID)
    opens = findings.open_entries(mod.ID)
    stats = {"executions": 0, "nontrivial": 0, "inconclusive": 0, "t0": time.time(), "seed": seed, "runs": runs}

    def dump():
        stats["wall_s"] = time.time() - stats["t0"]
        with open(os.path.join(outdir, "stats.json"), "w") as fh:
            json.dump(stats, fh)

    @settings(database=None, deadline=None, suppress_health_check=list(HealthCheck))
    @given(mod.strategy("thorough", flags))
    def test(case):
        stats["executions"] += 1
        try:
            with watchdog(getattr(mod, "WATCHDOG", 20)):
                res = mod.run_case(case)
        except (Inconclusive, MemoryError):
            stats["inconclusive"] += 1
            return
        if res.get("nontrivial"):
            stats["nontrivial"] += 1
        fails = [f for f in res.get("failures", []) if findings.attribute(mod, opens, case, f) is None]
        if stats["executions"] % 100 == 0:
            dump()
        if fails:
            with open(os.path.join(outdir, "found.json"), "w") as fh:
                json.dump({"bucket": bucket_of(fails[0]), "buckets": sorted({bucket_of(f) for f in fails}),
                           "case": case, "failures": fails, "how": "atheris",
                           "hashseed": os.environ.get("PYTHONHASHSEED")}, fh)
            dump()
            raise AssertionError("property violated: %s" % bucket_of(fails[0]))

    dump()
    atheris.Setup([sys.argv[0], "-runs=%d" % runs, "-seed=%d" % seed, "-max_len=2048", "-len_control=0", "-timeout=120",
                   "-artifact_prefix=" + outdir + "/", corpus], test.hypothesis.fuzz_one_input)
    try:
        atheris.Fuzz()
    finally:
        dump()


if __name__ == "__main__":
    main()
