"""Reference semantics for reduced-form indexed grammars.
rules: ["end", A, a] | ["prod", A, B, f]  (A[s] -> B[f s]) | ["cons", f, A, B]  (A[f s] -> B[s]) | ["dup", A, B, C]

Exact emptiness by a function-table fixpoint (not Aho's sets-of-sets marking that the library implements):
T[(f, X)] = non-terminals that generate with stack f.sigma when exactly the non-terminals in X generate with sigma;
G(empty stack) = least fixpoint."""
from hypothesis import strategies as st


class RefIG:
    def __init__(self, rules, start="S"):
        self.rules = [tuple(r) for r in rules]
        self.start = start
        self.N = set()
        self.I = set()
        for r in self.rules:
            if r[0] == 'end':
                self.N.add(r[1])
            elif r[0] == 'prod':
                self.N |= {r[1], r[2]}
                self.I.add(r[3])
            elif r[0] == 'cons':
                self.N |= {r[2], r[3]}
                self.I.add(r[1])
            else:
                self.N |= {r[1], r[2], r[3]}
        self.N.add(start)

    def _close(self, base, T):
        Y = set(base)
        ch = True
        while ch:
            ch = False
            for r in self.rules:
                if r[0] == 'end' and r[1] not in Y:
                    Y.add(r[1])
                    ch = True
                elif r[0] == 'dup' and r[1] not in Y and r[2] in Y and r[3] in Y:
                    Y.add(r[1])
                    ch = True
                elif r[0] == 'prod' and r[1] not in Y and r[2] in T.get((r[3], frozenset(Y)), ()):
                    Y.add(r[1])
                    ch = True
        return frozenset(Y)

    def generating_at_empty_stack(self):
        T = {}

        def cons_base(f, X):
            return {r[2] for r in self.rules if r[0] == 'cons' and r[1] == f and r[3] in X}
        changed = True
        top = frozenset()
        while changed:
            changed = False
            for (f, X) in list(T.keys()):
                Y = self._close(cons_base(f, X) | T[(f, X)], T)
                if Y != T[(f, X)]:
                    T[(f, X)] = Y
                    changed = True
            newtop = self._close(top, T)
            if newtop != top:
                top = newtop
                changed = True
            for Y in [top] + list(T.values()):
                for f in self.I:
                    if (f, Y) not in T:
                        T[(f, Y)] = frozenset()
                        changed = True
        return top

    def is_empty(self):
        return self.start not in self.generating_at_empty_stack()

    def brute_nonempty(self, max_stack=4, max_depth=12):
        """independent under-approximation: bounded search for a terminating derivation"""
        done_true = set()

        def gen(A, stack, depth):
            if depth == 0:
                return False
            key = (A, stack)
            if key in done_true:
                return True
            for r in self.rules:
                if r[0] == 'end' and r[1] == A:
                    done_true.add(key)
                    return True
            for r in self.rules:
                ok = False
                if r[0] == 'prod' and r[1] == A and len(stack) < max_stack:
                    ok = gen(r[2], (r[3],) + stack, depth - 1)
                elif r[0] == 'cons' and r[2] == A and stack and stack[0] == r[1]:
                    ok = gen(r[3], stack[1:], depth - 1)
                elif r[0] == 'dup' and r[1] == A:
                    ok = gen(r[2], stack, depth - 1) and gen(r[3], stack, depth - 1)
                if ok:
                    done_true.add(key)
                    return True
            return False
        return gen(self.start, (), max_depth)

    def words(self, max_stack=3, max_depth=9, max_len=4, cap=200):
        """bounded enumeration of derivable terminal words (under-approximation of the language)"""
        memo = {}

        def gen(A, stack, depth):
            if depth == 0:
                return set()
            key = (A, stack, depth)
            if key in memo:
                return memo[key]
            memo[key] = set()
            out = set()
            for r in self.rules:
                if r[0] == 'end' and r[1] == A:
                    out.add(() if r[2] == "epsilon" else (r[2],))
                elif r[0] == 'prod' and r[1] == A and len(stack) < max_stack:
                    out |= gen(r[2], (r[3],) + stack, depth - 1)
                elif r[0] == 'cons' and r[2] == A and stack and stack[0] == r[1]:
                    out |= gen(r[3], stack[1:], depth - 1)
                elif r[0] == 'dup' and r[1] == A:
                    L = gen(r[2], stack, depth - 1)
                    if L:
                        Rr = gen(r[3], stack, depth - 1)
                        for u in L:
                            for v in Rr:
                                if len(u) + len(v) <= max_len:
                                    out.add(u + v)
                if len(out) > cap:
                    break
            memo[key] = out
            return out
        return gen(self.start, (), max_depth)


def product_rules(rules, D):
    """reference product with a RefNFA D: non-terminal (p, A, q) generates w from A with w driving D from p to q"""
    Q = sorted(D.states, key=repr)
    out = []

    def moves(p, a):
        return D.step(D.eclose({p}), a)
    for r in rules:
        r = tuple(r)
        if r[0] == 'end':
            A, a = r[1], r[2]
            for p in Q:
                if a == "epsilon":
                    for q in D.eclose({p}):
                        out.append(('end', (p, A, q), a))
                else:
                    for q in moves(p, a):
                        out.append(('end', (p, A, q), a))
        elif r[0] == 'prod':
            for p in Q:
                for q in Q:
                    out.append(('prod', (p, r[1], q), (p, r[2], q), r[3]))
        elif r[0] == 'cons':
            for p in Q:
                for q in Q:
                    out.append(('cons', r[1], (p, r[2], q), (p, r[3], q)))
        else:
            for p in Q:
                for q in Q:
                    for m in Q:
                        out.append(('dup', (p, r[1], q), (p, r[2], m), (m, r[3], q)))
    for s in D.eclose(D.starts):
        for f in D.finals:
            out.append(('dup', "START", (s, "S", f), "EPS"))
    out.append(('end', "EPS", "epsilon"))
    return out


def build_lib(rules, optim=7, start="S"):
    from pyformlang.indexed_grammar import (IndexedGrammar, Rules, EndRule, ProductionRule, ConsumptionRule,
                                            DuplicationRule)
    out = []
    for r in rules:
        if r[0] == 'end':
            out.append(EndRule(r[1], r[2]))
        elif r[0] == 'prod':
            out.append(ProductionRule(r[1], r[2], r[3]))
        elif r[0] == 'cons':
            out.append(ConsumptionRule(r[1], r[2], r[3]))
        else:
            out.append(DuplicationRule(r[1], r[2], r[3]))
    return IndexedGrammar(Rules(out, optim), start)


NT = ["S", "A", "B", "C"]
NT_RESERVED = ["S", "T", "A", "B"]
IDX = ["f", "g"]


@st.composite
def ig_rules(draw, max_rules=8, max_nt=4, reserved=False, terms=("a", "b")):
    pool = NT_RESERVED if reserved else NT
    n = min(draw(st.sampled_from([3, 2, 4, 3, 1])), max_nt)
    nts = pool[:n]
    nt = st.sampled_from(nts)
    idx = st.sampled_from(IDX[:draw(st.sampled_from([2, 1]))])
    rule = st.one_of(
        st.tuples(st.just("end"), nt, st.sampled_from(list(terms))).map(list),
        st.tuples(st.just("prod"), nt, nt, idx).map(list),
        st.tuples(st.just("cons"), idx, nt, nt).map(list),
        st.tuples(st.just("dup"), nt, nt, nt).map(list),
        st.tuples(st.just("end"), nt, st.sampled_from(list(terms))).map(list),
    )
    m = min(draw(st.sampled_from([5, 6, 4, 7, 8, 3, 2, 1])), max_rules)
    return draw(st.lists(rule, min_size=m, max_size=m, unique_by=repr))


@st.composite
def ig_rules_skeleton(draw, reserved=False, terms=("a", "b")):
    """Grammars built around the shape that exercises the combination of consumption alternatives (addrec_bis /
    addrec_ter): an index is pushed, the variable is duplicated, and both copies consume that index through
    different rules; 1-4 unconstrained rules are added and the list is shuffled.  Up to five non-terminals."""
    pool = (NT_RESERVED if reserved else NT) + ["E"]
    nts = pool[:draw(st.sampled_from([5, 4, 5, 3]))]
    nt = st.sampled_from(nts)
    idx = st.sampled_from(IDX[:draw(st.sampled_from([1, 2]))])
    i = draw(idx)
    y, p, q = draw(nt), draw(nt), draw(nt)
    core = [["prod", draw(nt), y, i], ["dup", y, p, q], ["cons", i, p, draw(nt)], ["cons", i, q, draw(nt)]]
    rule = st.one_of(
        st.tuples(st.just("end"), nt, st.sampled_from(list(terms))).map(list),
        st.tuples(st.just("prod"), nt, nt, idx).map(list),
        st.tuples(st.just("cons"), idx, nt, nt).map(list),
        st.tuples(st.just("dup"), nt, nt, nt).map(list),
        st.tuples(st.just("end"), nt, st.sampled_from(list(terms))).map(list),
    )
    extra = draw(st.lists(rule, min_size=1, max_size=4, unique_by=repr))
    rules = []
    for r in core + extra:
        if r not in rules:
            rules.append(r)
    return draw(st.permutations(rules))

