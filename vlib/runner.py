"""Orchestration: replay tier, shards, evidence, VIOLATION / KNOWN-FINDING lines.

  ./check <ID> [--tier quick|thorough] [--shards N] [--examples N]
  ./check <ID> --replay <file>

exit 0: property held on everything explored; 1: violation(s), each printed as
`VIOLATION property=<ID> replay=<path>`; 2: harness problem.
"""
import argparse
import glob
import hashlib
import importlib
import json
import os
import re
import shutil
import subprocess
import sys
import time

from .common import ROOT, REPO, HarnessError, check_repo_import, eprint, bucket_of
from . import findings


def h32(*parts):
    s = ":".join(str(p) for p in parts)
    return int(hashlib.sha256(s.encode()).hexdigest()[:8], 16)


def worker_env(hashseed):
    env = dict(os.environ)
    env["PYTHONHASHSEED"] = str(hashseed)
    env["PYTHONPATH"] = ROOT + os.pathsep + REPO
    env["PYTHONDONTWRITEBYTECODE"] = "1"
    return env


def spawn(args, hashseed, log):
    return subprocess.Popen([sys.executable, "-u", "-m", "vlib.worker"] + [str(a) for a in args],
                            cwd=ROOT, env=worker_env(hashseed), stdout=log, stderr=subprocess.STDOUT)


def slug(s):
    return re.sub(r"[^A-Za-z0-9_.-]+", "_", s)[:80]


def run_parallel(jobs, maxpar, deadline=None):
    """jobs: list of (args, hashseed, logpath); returns list of exit codes (None = killed at the deadline)"""
    running = []
    codes = [None] * len(jobs)
    idx = 0
    while idx < len(jobs) or running:
        while idx < len(jobs) and len(running) < maxpar:
            args, hs, logpath = jobs[idx]
            log = open(logpath, "w")
            running.append((idx, spawn(args, hs, log), log))
            idx += 1
        time.sleep(0.05)
        if deadline is not None and time.time() > deadline:
            for _i, p, log in running:
                p.kill()
                log.close()
            eprint("harness: wall-clock limit reached, %d worker(s) killed" % len(running))
            return codes
        still = []
        for i, p, log in running:
            rc = p.poll()
            if rc is None:
                still.append((i, p, log))
            else:
                codes[i] = rc
                log.close()
        running = still
    return codes


def replay_files(prop, files, work, maxpar=16):
    """replay case files in fresh processes; returns list of reports (None on harness error)"""
    jobs = []
    outs = []
    for k, f in enumerate(files):
        with open(f) as fh:
            data = json.load(fh)
        hs = data.get("hashseed") if isinstance(data, dict) else None
        hs = int(hs) if hs not in (None, "", "random") else 1
        out = os.path.join(work, "replay_%d.json" % k)
        outs.append(out)
        jobs.append((["replay", prop, f, out], hs, os.path.join(work, "replay_%d.log" % k)))
    codes = run_parallel(jobs, maxpar)
    reps = []
    for k, (rc, out) in enumerate(zip(codes, outs)):
        if rc != 0 or not os.path.exists(out):
            eprint("harness: replay of %s failed (rc=%s), see %s" % (files[k], rc, jobs[k][2]))
            try:
                eprint(open(jobs[k][2]).read()[-2000:])
            except OSError:
                pass
            reps.append(None)
        else:
            with open(out) as fh:
                reps.append(json.load(fh))
    return reps


def run_fuzz(prop, fz, work, base):
    """atheris campaigns (one process each) driving the property's own strategy; returns merged statistics"""
    deps = os.path.join(ROOT, ".deps")
    if not os.path.isdir(os.path.join(deps, "atheris")):
        return {"skipped": "atheris is not installed under .deps (run MANIFEST.setup_cmd)", "executions": 0, "found": []}
    procs = []
    for k in range(fz.get("procs", 8)):
        out = os.path.join(work, "fuzz_%d" % k)
        env = worker_env(1 + h32(base, "fuzzhash", k) % (2 ** 31 - 2))
        env["PYTHONPATH"] = env["PYTHONPATH"] + os.pathsep + deps
        log = open(os.path.join(work, "fuzz_%d.log" % k), "w")
        p = subprocess.Popen([sys.executable, "-u", "-m", "vlib.fuzz", prop, str(fz.get("runs", 20000)),
                              str(1 + h32(base, "fuzz", k) % (2 ** 31 - 2)), out],
                             cwd=ROOT, env=env, stdout=log, stderr=subprocess.STDOUT)
        procs.append((p, out, log))
    info = {"processes": len(procs), "runs_per_process": fz.get("runs", 20000), "executions": 0, "nontrivial": 0,
            "inconclusive": 0, "found": []}
    deadline = time.time() + fz.get("max_wall", 5400)
    for p, out, log in procs:
        try:
            p.wait(timeout=max(1, deadline - time.time()))
        except subprocess.TimeoutExpired:
            p.kill()
        log.close()
        try:
            with open(os.path.join(out, "stats.json")) as fh:
                st = json.load(fh)
            for k in ("executions", "nontrivial", "inconclusive"):
                info[k] += st.get(k, 0)
        except (OSError, ValueError):
            pass
        fj = os.path.join(out, "found.json")
        if os.path.exists(fj):
            with open(fj) as fh:
                info["found"].append(json.load(fh))
    return info


def main(argv=None):
    ap = argparse.ArgumentParser()
    ap.add_argument("prop")
    ap.add_argument("--tier", default=os.environ.get("VERIF_TIER") or "quick",
                    choices=["quick", "thorough"])
    ap.add_argument("--replay")
    ap.add_argument("--shards", type=int, default=None)
    ap.add_argument("--examples", type=int, default=None)
    ap.add_argument("--no-evidence", action="store_true")
    a = ap.parse_args(argv)
    prop = a.prop.upper()
    try:
        return _main(a, prop)
    except HarnessError as e:
        eprint("HARNESS ERROR:", e)
        return 2


def _main(a, prop):
    t0 = time.time()
    os.chdir(ROOT)
    sys.path.insert(0, ROOT)
    if REPO not in sys.path:
        sys.path.insert(1, REPO)
    check_repo_import()
    mod = importlib.import_module("props." + prop.lower())
    base = int(os.environ.get("VERIF_SEED", "1") or 1)
    work = os.path.join(ROOT, ".work", "%s-%d" % (prop, os.getpid()))
    os.makedirs(work, exist_ok=True)
    try:
        if a.replay:
            return do_replay(a, prop, mod, work)
        return do_check(a, prop, mod, work, base, t0)
    finally:
        shutil.rmtree(work, ignore_errors=True)


def do_replay(a, prop, mod, work):
    path = os.path.abspath(a.replay)
    rep = replay_files(prop, [path], work)[0]
    if rep is None:
        return 2
    if rep["inconclusive"]:
        print("INCONCLUSIVE (watchdog) on %s" % path)
        return 0
    opens = findings.open_entries(prop)
    bad = []
    for f in rep["failures"]:
        fid = findings.attribute(mod, opens, rep["case"], f)
        print("FAILURE sub=%s kind=%s%s detail=%s" % (
            f["sub"], f["kind"], " (known finding %s)" % fid if fid else "", f.get("detail")))
        if fid is None:
            bad.append(f)
    if bad:
        print("VIOLATION property=%s replay=%s" % (prop, path))
        return 1
    print("PASS property=%s replay=%s" % (prop, path))
    return 0


def do_check(a, prop, mod, work, base, t0):
    tier = a.tier
    nshards = a.shards or getattr(mod, "SHARDS", {}).get(tier, 16)
    violations = []      # (replay path, text)
    known_lines = []
    opens = findings.open_entries(prop)

    # ------------------------------------------------------------ 1. replay tier
    regress = sorted(glob.glob(os.path.join(ROOT, "regress", prop, "*.json")))
    entries = findings.entries(prop)
    witness_of = {os.path.join(ROOT, e["witness"]): e for e in entries if e.get("witness")}
    for w in witness_of:
        if w not in regress:
            raise HarnessError("witness file missing: %s" % w)
    reps = replay_files(prop, regress, work)
    replay_stats = {"files": len(regress), "failing_known": 0}
    for f, rep in zip(regress, reps):
        if rep is None:
            return 2
        entry = witness_of.get(f)
        if rep["inconclusive"]:
            if entry is not None and entry["status"] == "open" and entry.get("hangs"):
                known_lines.append("KNOWN-FINDING: property=%s %s %s" % (prop, entry["id"], entry["what"]))
                replay_stats["failing_known"] += 1
            continue
        unattributed = []
        matched_own = False
        for fl in rep["failures"]:
            fid = findings.attribute(mod, opens, rep["case"], fl)
            if fid is None:
                unattributed.append(fl)
            elif entry is not None and fid == entry["id"]:
                matched_own = True
        if entry is not None and entry["status"] == "open" and matched_own:
            known_lines.append("KNOWN-FINDING: property=%s %s %s" % (prop, entry["id"], entry["what"]))
            replay_stats["failing_known"] += 1
        if unattributed:
            violations.append((f, "%s (regression case)" % bucket_of(unattributed[0])))

    # ------------------------------------------------------------ 2. generated / enumerated shards
    jobs = []
    outs = []
    for i in range(nshards):
        out = os.path.join(work, "shard_%d.json" % i)
        outs.append(out)
        args = ["run", prop, tier, i, nshards, h32(base, prop, i) % (2 ** 31), out]
        if a.examples is not None:
            args.append(a.examples)
        hashseed = 1 + h32(base, "hash", i) % (2 ** 31 - 2)
        jobs.append((args, hashseed, os.path.join(work, "shard_%d.log" % i)))
    limit = float(os.environ.get("VERIF_MAX_WALL", "1500" if tier == "quick" else "28000"))
    codes = run_parallel(jobs, maxpar=int(os.environ.get("VERIF_JOBS", "16")), deadline=time.time() + limit)
    reports = []
    for i, (rc, out) in enumerate(zip(codes, outs)):
        if rc != 0 or not os.path.exists(out):
            eprint("harness: shard %d failed rc=%s" % (i, rc))
            try:
                eprint(open(jobs[i][2]).read()[-3000:])
            except OSError:
                pass
            return 2
        with open(out) as fh:
            reports.append(json.load(fh))

    # ------------------------------------------------------------ 2b. coverage-guided supplement (thorough tier)
    fuzz_info = None
    fz = getattr(mod, "FUZZ", None)
    if fz and tier == "thorough" and not os.environ.get("VERIF_NO_FUZZ"):
        fuzz_info = run_fuzz(prop, fz, work, base)

    # ------------------------------------------------------------ 3. merge
    evaluations = sum(r["evaluations"] for r in reports) + len(regress)
    hashes = set()
    count_only = 0
    classes = {}
    samples = []
    attributed = {}
    excluded = {}
    inconclusive = 0
    inc_samples = []
    exhaustive_cases = 0
    found = []
    for r in reports:
        hashes.update(r["nontrivial_hashes"])
        count_only += r["nontrivial_count_only"]
        for k, v in r["classes"].items():
            classes[k] = classes.get(k, 0) + v
        for k, v in r["attributed"].items():
            attributed[k] = attributed.get(k, 0) + v
        for k, v in r["excluded"].items():
            excluded[k] = excluded.get(k, 0) + v
        inconclusive += r["inconclusive"]
        inc_samples.extend(r["inconclusive_samples"][:1])
        if r.get("exhaustive"):
            exhaustive_cases += r["exhaustive"]["cases"]
        found.extend(r["found"])
    if fuzz_info:
        evaluations += fuzz_info["executions"]
        found.extend(fuzz_info.pop("found"))
    for r in reports:
        for s in r["samples"][:2]:
            if len(samples) < 8:
                samples.append(s)
    if not samples:
        for r in reports:
            samples.extend(r["samples"][:1])

    # one replay file per bucket (smallest case)
    by_bucket = {}
    for f in found:
        cur = by_bucket.get(f["bucket"])
        if cur is None or len(json.dumps(f["case"])) < len(json.dumps(cur["case"])):
            by_bucket[f["bucket"]] = f
    rdir = os.path.join(ROOT, "replays", prop)
    for b, f in sorted(by_bucket.items()):
        os.makedirs(rdir, exist_ok=True)
        path = os.path.join(rdir, slug(b) + ".json")
        with open(path, "w") as fh:
            json.dump({"property": prop, "bucket": b, "hashseed": f["hashseed"], "how": f["how"],
                       "failures": f["failures"], "case": f["case"]}, fh, indent=1, sort_keys=True)
        violations.append((path, b))

    wall = time.time() - t0
    # ------------------------------------------------------------ 4. health gate
    health = None
    if hasattr(mod, "health") and not violations:
        # the gate looks at the generated cases only: an exhaustive scope has its own, fixed distribution
        gen_classes = {}
        for r in reports:
            for k, v in r.get("classes_generated", {}).items():
                gen_classes[k] = gen_classes.get(k, 0) + v
        health = mod.health(gen_classes, sum(r.get("evaluations_generated", 0) for r in reports), tier)

    # ------------------------------------------------------------ 5. evidence
    distinct = len(hashes) + count_only
    cov = {
        "evaluations": evaluations,
        "distinct_nontrivial": distinct,
        "rule": mod.RULE,
        "samples": samples[:8],
        "classes": dict(sorted(classes.items())),
        "shards": nshards,
        "hashseeds": [r["hashseed"] for r in reports],
        "replayed_regression_cases": replay_stats["files"],
        "attributed_to_known": attributed,
        "excluded_by_finding": excluded,
        "open_findings": [e["id"] for e in opens],
        "inconclusive": inconclusive,
        "shards_stopped_after_inconclusive": sum(1 for r in reports if r.get("aborted_after_inconclusive")),
        "inconclusive_samples": inc_samples[:2],
        "budget_examples_per_shard": a.examples if a.examples is not None else mod.BUDGET[tier],
    }
    if exhaustive_cases:
        cov["exhaustive"] = True
        cov["exhaustive_cases"] = exhaustive_cases
        cov["exhaustive_scope"] = getattr(mod, "EXHAUSTIVE_SCOPE", {}).get(tier, "")
    if fuzz_info:
        cov["atheris_supplement"] = fuzz_info
    if health:
        cov["health_gate"] = health
    ev = {
        "property_id": prop, "tier": tier, "seed": int(os.environ.get("VERIF_SEED", "1") or 1),
        "level": "exploration", "coverage": cov,
        "assumptions": list(getattr(mod, "ASSUMPTIONS", [])),
        "wall_s": round(wall, 2), "violations": len(violations),
    }
    if not a.no_evidence:
        os.makedirs(os.path.join(ROOT, "evidence"), exist_ok=True)
        with open(os.path.join(ROOT, "evidence", prop + ".json"), "w") as fh:
            json.dump(ev, fh, indent=1, sort_keys=True)

    # ------------------------------------------------------------ 6. verdict
    for line in known_lines:
        print(line)
    print("%s tier=%s seed=%s shards=%d evaluations=%d distinct_nontrivial=%d inconclusive=%d wall=%.1fs"
          % (prop, tier, ev["seed"], nshards, evaluations, distinct, inconclusive, wall))
    if inconclusive:
        print("INCONCLUSIVE cases=%d (no answer within the watchdog; not counted as violations; see evidence)"
              % inconclusive)
    if violations:
        for path, what in violations:
            print("violation detail: %s" % what)
            print("VIOLATION property=%s replay=%s" % (prop, path))
        return 1
    if health:
        eprint("HARNESS ERROR: generator health gate: %s" % health)
        return 2
    if distinct < 2:
        eprint("HARNESS ERROR: fewer than 2 distinct non-trivial cases")
        return 2
    return 0


if __name__ == "__main__":
    sys.exit(main())
