"""Finite scopes enumerated completely (shared by C01, C04)."""
import itertools


def _subsets(xs):
    return itertools.chain.from_iterable(itertools.combinations(xs, k) for k in range(len(xs) + 1))


def enfa_scope(nstates, single_start, labels=("a", None)):
    """every epsilon-NFA with states 0..n-1 over the labels, every start/final marking"""
    states = list(range(nstates))
    possible = [(p, a, q) for p in states for a in labels for q in states]
    start_opts = [[s] for s in states] if single_start else [list(x) for x in _subsets(states)]
    final_opts = [list(x) for x in _subsets(states)]
    idx = 0
    for mask in range(2 ** len(possible)):
        trans = [list(possible[i]) for i in range(len(possible)) if mask >> i & 1]
        for starts in start_opts:
            for finals in final_opts:
                yield idx, {"cls": "enfa", "how": "mut", "order": "tsf", "trans": trans,
                            "starts": starts, "finals": finals}
                idx += 1


def sharded(gen, shard, nshards):
    for idx, x in gen:
        if idx % nshards == shard:
            yield x
