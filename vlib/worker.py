"""One shard of one property check = one python process with its own PYTHONHASHSEED.

usage:
  python -m vlib.worker run <PROP> <tier> <shard> <nshards> <seed> <out.json> [examples]
  python -m vlib.worker replay <PROP> <case.json> <out.json>

exit code 0: report written (it may contain failures); 2: harness problem.
"""
import collections
import importlib
import json
import os
import sys
import time
import traceback

from .common import (Inconclusive, HarnessError, watchdog, case_hash, bucket_of,
                     check_repo_import, eprint, CaseFailed, TooManyInconclusive)
from . import findings

MAX_ROUNDS = 4
MAX_SAMPLES = 6


MAX_INCONCLUSIVE = 3


class ShardState:
    def __init__(self, mod, tier, shard):
        self.mod = mod
        self.tier = tier
        self.shard = shard
        self.evals = 0
        self.nontrivial = set()
        self.nontrivial_count_only = 0
        self.classes = collections.Counter()
        self.classes_gen = collections.Counter()     # generated cases only (not the exhaustive scopes)
        self.evals_gen = 0
        self.samples = []
        self.inconclusive = 0
        self.inconclusive_samples = []
        self.attributed = collections.Counter()
        self.excluded = collections.Counter()
        self.muted = set()
        self.found = []
        self.last_fail = None
        self.calls_since_first_fail = None
        self.shrink_cap = 1500 if tier == "quick" else 12000
        self.open_entries = findings.open_entries(mod.ID)
        self.track_hashes = True

    def execute(self, case, counting=True):
        """run one case; returns the list of un-muted, un-attributed failures"""
        wd = getattr(self.mod, "WATCHDOG", 20)
        self.evals += 1
        try:
            with watchdog(wd):
                res = self.mod.run_case(case)
        except (Inconclusive, MemoryError):
            self.inconclusive += 1
            if len(self.inconclusive_samples) < 3:
                self.inconclusive_samples.append(case)
            if self.inconclusive >= getattr(self.mod, "MAX_INCONCLUSIVE", {}).get(self.tier, MAX_INCONCLUSIVE):
                raise TooManyInconclusive()
            return []
        return self.account(case, res)

    def note_inconclusive(self, case):
        self.inconclusive += 1
        if len(self.inconclusive_samples) < 3:
            self.inconclusive_samples.append(case)
        if self.inconclusive >= getattr(self.mod, "MAX_INCONCLUSIVE", {}).get(self.tier, MAX_INCONCLUSIVE):
            raise TooManyInconclusive()

    def filter_failures(self, case, failures):
        """drop failures attributed to an open finding or muted (already reported in this run)"""
        fails = []
        for f in failures:
            fid = findings.attribute(self.mod, self.open_entries, case, f)
            if fid is not None:
                self.attributed[fid] += 1
                continue
            if bucket_of(f) in self.muted:
                continue
            fails.append(f)
        return fails

    def account(self, case, res):
        """statistics of one executed case; returns its un-muted, un-attributed failures"""
        fails = self.filter_failures(case, res.get("failures", []))
        for lab in res.get("labels", []):
            self.classes[lab] += 1
            if self.track_hashes:
                self.classes_gen[lab] += 1
        if self.track_hashes:
            self.evals_gen += 1
        for lab, k in res.get("excluded", {}).items():
            self.excluded[lab] += k
        if res.get("nontrivial"):
            if self.track_hashes:
                h = case_hash(case)[:14]
                if h not in self.nontrivial:
                    self.nontrivial.add(h)
                    if len(self.samples) < MAX_SAMPLES and (len(self.nontrivial) - 1) % 37 == 0:
                        self.samples.append(case)
            else:
                self.nontrivial_count_only += 1
                if len(self.samples) < MAX_SAMPLES and self.nontrivial_count_only % 9973 == 1:
                    self.samples.append(case)
        return fails

    def should_raise(self, case, fails):
        """shared by the @given body and the stateful machines: decides whether this failing case is raised
        to hypothesis (after the shrink budget only the current best keeps failing)"""
        if self.calls_since_first_fail is None:
            self.calls_since_first_fail = 0
        if self.calls_since_first_fail > self.shrink_cap and self.last_fail is not None \
                and case_hash(case) != case_hash(self.last_fail[0]):
            return False
        self.last_fail = (case, fails)
        return True

    # -------------------------------------------------------------- hypothesis body
    def hyp_body(self, case):
        if self.calls_since_first_fail is not None:
            self.calls_since_first_fail += 1
        fails = self.execute(case)
        if not fails:
            return
        if self.should_raise(case, fails):
            raise CaseFailed(bucket_of(fails[0]))

    def record_found(self, case, fails, how):
        buckets = sorted({bucket_of(f) for f in fails})
        self.found.append({"bucket": buckets[0], "buckets": buckets, "case": case,
                           "failures": fails, "how": how,
                           "hashseed": os.environ.get("PYTHONHASHSEED")})
        self.muted.update(buckets)

    def report(self):
        return {
            "shard": self.shard, "hashseed": os.environ.get("PYTHONHASHSEED"),
            "evaluations": self.evals,
            "nontrivial_hashes": sorted(self.nontrivial),
            "nontrivial_count_only": self.nontrivial_count_only,
            "classes": dict(self.classes), "classes_generated": dict(self.classes_gen),
            "evaluations_generated": self.evals_gen, "samples": self.samples,
            "inconclusive": self.inconclusive, "inconclusive_samples": self.inconclusive_samples,
            "attributed": dict(self.attributed), "excluded": dict(self.excluded),
            "found": self.found,
        }


def run_hypothesis(state, strat, n_examples, seedval):
    import hypothesis
    from hypothesis import given, settings, HealthCheck, Phase
    from hypothesis import errors as herr

    remaining = n_examples
    for rnd in range(MAX_ROUNDS):
        if remaining <= 0:
            break
        state.last_fail = None
        state.calls_since_first_fail = None
        before = state.evals

        @hypothesis.seed(seedval + 7919 * rnd)
        @settings(max_examples=remaining, database=None, deadline=None, derandomize=False,
                  report_multiple_bugs=False,
                  suppress_health_check=[HealthCheck.too_slow, HealthCheck.data_too_large,
                                         HealthCheck.large_base_example,
                                         HealthCheck.filter_too_much],
                  phases=(Phase.generate, Phase.shrink))
        @given(strat)
        def test(case):
            state.hyp_body(case)

        try:
            test()
        except CaseFailed:
            case, fails = state.last_fail
            state.record_found(case, fails, "hypothesis-shrunk")
        except herr.Flaky:
            if state.last_fail is None:
                raise
            case, fails = state.last_fail
            state.record_found(case, fails, "hypothesis-flaky")
        else:
            break
        remaining -= (state.evals - before)


def run_machines(state, machines, n_examples, seedval, steps):
    """stateful tier: each machine class gets n_examples/len(machines) sequences"""
    import hypothesis
    from hypothesis import settings, HealthCheck, Phase
    from hypothesis.stateful import run_state_machine_as_test
    from hypothesis import errors as herr
    per = max(1, n_examples // len(machines))
    for mi, make in enumerate(machines):
        remaining = per
        for rnd in range(MAX_ROUNDS):
            if remaining <= 0:
                break
            state.last_fail = None
            state.calls_since_first_fail = None
            before = state.seq_count
            cls = make(state)
            st = settings(max_examples=remaining, stateful_step_count=steps, database=None,
                          deadline=None, derandomize=False, report_multiple_bugs=False,
                          suppress_health_check=list(HealthCheck),
                          phases=(Phase.generate, Phase.shrink))
            try:
                run_state_machine_as_test(hypothesis.seed(seedval + 31 * mi + 7919 * rnd)(cls),
                                          settings=st)
            except CaseFailed:
                case, fails = state.last_fail
                state.record_found(case, fails, "hypothesis-shrunk")
            except herr.Flaky:
                if state.last_fail is None:
                    raise
                case, fails = state.last_fail
                state.record_found(case, fails, "hypothesis-flaky")
            else:
                break
            remaining -= (state.seq_count - before)


def cmd_run(argv):
    prop, tier, shard, nshards, seedval, out = argv[:6]
    shard, nshards, seedval = int(shard), int(nshards), int(seedval)
    check_repo_import(prop.upper())
    mod = importlib.import_module("props." + prop.lower())
    state = ShardState(mod, tier, shard)
    budget = mod.BUDGET[tier]
    if len(argv) > 6:
        budget = int(argv[6])
    flags = findings.open_flags(mod.ID)
    t0 = time.time()
    exhaustive_info = None
    aborted = False
    try:
        if hasattr(mod, "exhaustive"):
            state.track_hashes = False
            exhaustive_info = {"cases": 0}
            for case in mod.exhaustive(tier, shard, nshards):
                exhaustive_info["cases"] += 1
                fails = state.execute(case)
                if fails:
                    state.record_found(case, fails, "exhaustive")
            state.track_hashes = True
        if hasattr(mod, "machines"):
            state.seq_count = 0
            run_machines(state, mod.machines(tier, flags), budget, seedval,
                         mod.STEPS[tier])
        else:
            strat = mod.strategy(tier, flags)
            run_hypothesis(state, strat, budget, seedval)
    except TooManyInconclusive:
        aborted = True
    rep = state.report()
    rep["aborted_after_inconclusive"] = aborted
    rep["exhaustive"] = exhaustive_info
    rep["wall_s"] = time.time() - t0
    with open(out, "w") as fh:
        json.dump(rep, fh)
    return 0


def cmd_replay(argv):
    prop, casefile, out = argv[:3]
    check_repo_import(prop.upper())
    mod = importlib.import_module("props." + prop.lower())
    with open(casefile) as fh:
        data = json.load(fh)
    case = data["case"] if isinstance(data, dict) and "case" in data else data
    wd = getattr(mod, "WATCHDOG", 20)
    rep = {"case": case, "failures": [], "inconclusive": False,
           "hashseed": os.environ.get("PYTHONHASHSEED")}
    try:
        with watchdog(wd * 3):
            res = mod.run_case(case)
        rep["failures"] = res.get("failures", [])
        rep["labels"] = res.get("labels", [])
        rep["nontrivial"] = bool(res.get("nontrivial"))
    except Inconclusive:
        rep["inconclusive"] = True
    with open(out, "w") as fh:
        json.dump(rep, fh)
    return 0


def main():
    sys.setrecursionlimit(3000)
    try:
        import resource
        lim = int(os.environ.get("VERIF_WORKER_MEM_MB", "4096")) * 1024 * 1024
        resource.setrlimit(resource.RLIMIT_AS, (lim, lim))
    except (ImportError, ValueError, OSError):
        pass
    try:
        if sys.argv[1] == "run":
            return cmd_run(sys.argv[2:])
        if sys.argv[1] == "replay":
            return cmd_replay(sys.argv[2:])
        raise HarnessError("unknown worker command")
    except Exception:  # harness problem
        traceback.print_exc()
        return 2


if __name__ == "__main__":
    sys.exit(main())
