"""C09 CFG clean-up and Chomsky normal form keep the language and the promised shape."""
from hypothesis import strategies as st

from vlib.common import fail, guard
from vlib import ref_cfg, gen_cfg
from props.c08 import grammar_labels

ID = "C09"
RULE = ("case = CFG description as in C08 plus explicitly seeded unit productions/cycles (A->A, A->B->A), epsilon "
        "productions, and groups of long productions sharing a suffix. For remove_useless_symbols, remove_epsilon, "
        "eliminate_unit_productions and to_normal_form the result is extracted (start_symbol, productions, variables, "
        "terminals) and its bounded language (length <=5, least fixpoint) compared with the original's (minus the "
        "empty word for remove_epsilon and to_normal_form, as documented); shape: only generating and reachable "
        "symbols / no empty body / no A->B / only A->BC and A->a with is_normal_form() True. Non-trivial: >=2 words "
        "of length <=5 and at least one transformation changes the production set. In half of the cases the object is "
        "first asked 1-3 questions (generate_epsilon, contains, is_empty, nullable/generating/reachable symbols, "
        "is_finite), whose answers are checked too, before it is transformed. Distinct = SHA-1 of canonical JSON.")
ASSUMPTIONS = ["reference bounded languages by least fixpoint (vlib/ref_cfg.py), bound 5",
               "the start symbol may stay declared in an empty-language result (it has to exist)"]
BUDGET = {"quick": 800, "thorough": 6000}
FUZZ = {"procs": 4, "runs": 6000}      # atheris supplement of the thorough tier (vlib/fuzz.py)
WATCHDOG = 30
N = 5


PRELUDE = ["generate_epsilon", "contains_empty", "is_empty", "get_nullable_symbols", "get_generating_symbols",
           "get_reachable_symbols", "is_finite", "contains_word"]


def strategy(tier, flags):
    # half of the cases transform a fresh object; the others first ask it 1-3 questions (the cleaning passes share
    # cached analyses with generate_epsilon / contains / is_empty ...), whose answers are checked as well
    prelude = st.one_of(st.just([]), st.lists(st.sampled_from(PRELUDE), min_size=1, max_size=3))
    return st.fixed_dictionaries({"g": gen_cfg.cfg_desc(start_always=False, suffix_bias=True, max_prods=9),
                                  "prelude": prelude})


def shape_useless(G):
    """symbols of the result that are useless in the result itself (start symbol exempted)"""
    gen = G.generating()
    reach = G.reachable()
    bad = []
    for h, b in G.prods:
        for k, x in [('V', h)] + list(b):
            if k == 'V' and (x not in gen or ('V', x) not in reach):
                bad.append(x)
            if k == 'T' and ('T', x) not in reach:
                bad.append(x)
    for v in G.vars:
        if v != G.start and (v not in gen or ('V', v) not in reach):
            bad.append(v)
    for t in G.terms:
        if ('T', t) not in reach:
            bad.append(t)
    return bad


EXHAUSTIVE_SCOPE = {
    "thorough": "all grammars over variables {S,A}, terminals {a,b}, with 1-3 distinct productions with bodies of "
                "length <=2 (12383 grammars, the scope of C08)",
}


def exhaustive(tier, shard, nshards):
    from props import c08
    for c in c08.exhaustive(tier, shard, nshards):
        yield {"g": c["g"]}


def run_case(case):
    failures = []
    d = case["g"]
    R = ref_cfg.from_desc(d)
    with guard(failures, "build"):
        g = ref_cfg.build_lib(d)
    if failures:
        return {"failures": failures}
    N = 7 if d.get("big") else 5
    lang = R.language_upto(N)
    before = ref_cfg.lib_to_ref(g).prod_set()
    changed = False

    def cmp(name, res, expected):
        G = ref_cfg.lib_to_ref(res)
        got = G.language_upto(N)
        if got != expected:
            failures.append(fail(name, "language", {"missing": sorted(expected - got, key=repr)[:3],
                                                    "extra": sorted(got - expected, key=repr)[:3]}))
        return G

    for q in case.get("prelude") or []:
        with guard(failures, "prelude." + q):
            if q == "generate_epsilon":
                got, want = g.generate_epsilon(), () in lang
            elif q == "contains_empty":
                got, want = g.contains([]), () in lang
            elif q == "contains_word":
                w = min((x for x in lang if x), key=lambda x: (len(x), repr(x)), default=None)
                if w is None:
                    continue
                got, want = g.contains(list(w)), True
            elif q == "is_empty":
                got, want = g.is_empty(), R.is_empty()
            elif q == "is_finite":
                g.is_finite()
                continue
            else:
                getattr(g, q)()
                continue
            if got != want:
                failures.append(fail("prelude." + q, "wrong:%s" % got))
    with guard(failures, "remove_useless_symbols"):
        G = cmp("remove_useless_symbols", g.remove_useless_symbols(), lang)
        bad = shape_useless(G)
        if bad:
            failures.append(fail("remove_useless_symbols", "shape:useless_symbol_left", bad[:4]))
        changed |= G.prod_set() != before
    with guard(failures, "remove_epsilon"):
        r_eps = g.remove_epsilon()
        G = cmp("remove_epsilon", r_eps, lang - {()})
        if any(not b for _h, b in G.prods):
            failures.append(fail("remove_epsilon", "shape:epsilon_production_left"))
        changed |= G.prod_set() != before
        # the result is a grammar like any other: cleaned again it keeps its language and has the promised shape
        G2 = cmp("remove_epsilon.remove_useless_symbols", r_eps.remove_useless_symbols(), lang - {()})
        bad = shape_useless(G2)
        if bad:
            failures.append(fail("remove_epsilon.remove_useless_symbols", "shape:useless_symbol_left", bad[:4]))
        if r_eps.is_empty() != G.is_empty():      # the reference's own fixpoint on the extracted productions
            failures.append(fail("remove_epsilon.is_empty", "wrong:%s" % r_eps.is_empty()))
    with guard(failures, "eliminate_unit_productions"):
        G = cmp("eliminate_unit_productions", g.eliminate_unit_productions(), lang)
        if any(len(b) == 1 and b[0][0] == 'V' for _h, b in G.prods):
            failures.append(fail("eliminate_unit_productions", "shape:unit_production_left"))
        changed |= G.prod_set() != before
    with guard(failures, "to_normal_form"):
        nf = g.to_normal_form()
        G = cmp("to_normal_form", nf, lang - {()})
        for h, b in G.prods:
            ok = (len(b) == 2 and b[0][0] == 'V' and b[1][0] == 'V') or (len(b) == 1 and b[0][0] == 'T')
            if not ok:
                failures.append(fail("to_normal_form", "shape:not_chomsky", (h, b)))
                break
        if not nf.is_normal_form():
            failures.append(fail("to_normal_form", "shape:is_normal_form_false"))
        changed |= G.prod_set() != before
        # asking again gives the same grammar (cached)
        G2 = ref_cfg.lib_to_ref(g.to_normal_form())
        if G2.language_upto(N) != lang - {()}:
            failures.append(fail("to_normal_form", "second_call_language"))
    with guard(failures, "operand_unchanged"):
        if ref_cfg.lib_to_ref(g).prod_set() != before:
            failures.append(fail("operand_unchanged", "changed"))
    labels, _special = grammar_labels(R, d)
    if not lang:
        labels.append("empty_language")
    if changed:
        labels.append("transformation_changes_productions")
    if case.get("prelude"):
        labels.append("queried_before_transforming")
    return {"failures": failures, "labels": labels, "nontrivial": len(lang) >= 2 and changed}


def health(classes, n, tier):
    need = {"epsilon_production": 0.06, "unit_production": 0.06, "useless_symbol": 0.06, "self_unit": 0.004,
            "long_body": 0.08, "empty_language": 0.012}
    for k, frac in need.items():
        if classes.get(k, 0) < frac * n:
            return "class %s too rare: %d of %d" % (k, classes.get(k, 0), n)
    return None
