"""C13 CFG <-> PDA and PDA acceptance-mode conversions preserve the language."""
from hypothesis import strategies as st

from vlib.common import fail, guard, words_upto, HarnessError
from vlib import ref_pda, ref_cfg, gen_pda, gen_cfg

ID = "C13"
RULE = ("two kinds of cases. (pda) a PDA description (<=3 states, <=3 stack symbols, <=7 transitions, epsilon moves, "
        "pushes of 0-3 symbols, possibly no final state, reserved names #STARTTOFINAL#, #BOTTOMEMPTYS#, ... as state "
        "and stack names): to_cfg() is extracted and its bounded language (<=3) must equal the words <=3 the reference "
        "PDA accepts by empty stack; to_final_state() / to_empty_stack() are extracted and evaluated by the reference "
        "PDA interpreter (final state / empty stack) against the original's other mode; also the compositions "
        "to_final_state().to_empty_stack() and to_empty_stack().to_final_state(). (cfg) a CFG description: to_pda() "
        "extracted, empty-stack language == reference bounded language; to_pda().to_cfg() round trip. Non-trivial: "
        "the accepted set within the bound is non-empty and not everything. Distinct = SHA-1 of canonical JSON.")
ASSUMPTIONS = ["reference PDA acceptance = pop-summary fixpoint (vlib/ref_pda.py), cross-checked in every case against a "
               "bounded brute-force configuration search (disagreement = harness error)",
               "library-produced machines are evaluated by the reference interpreter, never by the library",
               "words up to length 3 over the input symbols plus one foreign symbol",
               "cfg.to_pda() prints symbol values with str(): only string-valued grammar symbols are in the domain"]
BUDGET = {"quick": 600, "thorough": 5000}
FUZZ = {"procs": 4, "runs": 6000}      # atheris supplement of the thorough tier (vlib/fuzz.py)
WATCHDOG = 60


def strategy(tier, flags):
    return st.one_of(
        st.fixed_dictionaries({"kind": st.just("pda"), "p": gen_pda.pda_desc()}),
        st.fixed_dictionaries({"kind": st.just("pda"), "p": gen_pda.pda_desc()}),
        st.fixed_dictionaries({"kind": st.just("cfg"),
                               "g": gen_cfg.cfg_desc(max_prods=6, max_body=3, start_always=False,
                                                     var_pools=["std", "long", "fresh", "lower"],
                                                     term_pools=["ab", "abc", "tok", "upper", "shared"])}))


def selftest(R, words):
    for w in words:
        for mode, f in (("empty", R.accepts_empty_stack), ("final", R.accepts_final)):
            b = ref_pda.brute_force(R, w, mode, max_steps=10, max_stack=8)
            r = f(w)
            if b and not r:
                raise HarnessError("reference PDA misses a run found by brute force: %r %r %s" % (R.desc(), w, mode))
            if not b and r and not any(t[1] is None for t in R.trans) and len(w) * 3 + 1 <= 8:
                raise HarnessError("reference PDA accepts without a run (eps-free): %r %r %s" % (R.desc(), w, mode))


def run_case(case):
    failures = []
    if case["kind"] == "pda":
        return run_pda(case, failures)
    return run_cfg(case, failures)


def run_pda(case, failures):
    d = case["p"]
    R = ref_pda.from_desc(d)
    with guard(failures, "build"):
        P = ref_pda.build_lib(d)
    if failures:
        return {"failures": failures}
    alphabet = sorted(R.alphabet, key=repr)[:2] + [gen_pda.FOREIGN]
    words = words_upto(alphabet, 3)
    selftest(R, words[:12])
    by_empty = R.lang_empty_stack(words)
    by_final = R.lang_final(words)
    before = ref_pda.from_lib(P).desc()
    with guard(failures, "extraction"):
        X = ref_pda.from_lib(P)
        if X.lang_empty_stack(words) != by_empty or X.lang_final(words) != by_final:
            failures.append(fail("extraction", "built_pda_differs_from_description"))
    with guard(failures, "to_cfg"):
        G = ref_cfg.lib_to_ref(P.to_cfg())
        got = G.language_upto(3)
        exp = by_empty
        # the grammar may only use the PDA's input symbols
        if got != exp:
            failures.append(fail("to_cfg", "language", {"missing": sorted(exp - got, key=repr)[:3],
                                                        "extra": sorted(got - exp, key=repr)[:3]}))
    with guard(failures, "to_final_state"):
        F = ref_pda.from_lib(P.to_final_state())
        got = F.lang_final(words)
        if got != by_empty:
            failures.append(fail("to_final_state", "language", {"missing": sorted(by_empty - got, key=repr)[:3],
                                                                "extra": sorted(got - by_empty, key=repr)[:3]}))
    with guard(failures, "to_empty_stack"):
        E = ref_pda.from_lib(P.to_empty_stack())
        got = E.lang_empty_stack(words)
        if got != by_final:
            failures.append(fail("to_empty_stack", "language", {"missing": sorted(by_final - got, key=repr)[:3],
                                                                "extra": sorted(got - by_final, key=repr)[:3]}))
    with guard(failures, "final_then_empty"):
        C = ref_pda.from_lib(P.to_final_state().to_empty_stack())
        got = C.lang_empty_stack(words)
        if got != by_empty:
            failures.append(fail("final_then_empty", "language"))
    with guard(failures, "empty_then_final"):
        C = ref_pda.from_lib(P.to_empty_stack().to_final_state())
        got = C.lang_final(words)
        if got != by_final:
            failures.append(fail("empty_then_final", "language"))
    with guard(failures, "operand_unchanged"):
        if ref_pda.from_lib(P).desc() != before:
            failures.append(fail("operand_unchanged", "changed"))
    labels = ["pda", "spool:" + d.get("spool", "?"), "kpool:" + d.get("kpool", "?")]
    if any(t[1] is None for t in R.trans):
        labels.append("eps_moves")
    if any(t[1] is None and len(t[4]) >= 2 and t[0] == t[3] for t in R.trans):
        labels.append("eps_loop_growing_stack")
    if any(len(t[4]) >= 2 for t in R.trans):
        labels.append("multi_symbol_push")
    if not R.finals:
        labels.append("no_final_state")
    if by_empty:
        labels.append("empty_stack_language_nonempty")
    if by_final:
        labels.append("final_state_language_nonempty")
    nt = (0 < len(by_empty) < len(words)) or (0 < len(by_final) < len(words))
    return {"failures": failures, "labels": labels, "nontrivial": nt}


def run_cfg(case, failures):
    d = case["g"]
    R = ref_cfg.from_desc(d)
    with guard(failures, "build"):
        g = ref_cfg.build_lib(d)
    if failures:
        return {"failures": failures}
    alphabet = sorted(R.terms, key=repr)[:2] + [gen_cfg.FOREIGN]
    words = words_upto(alphabet, 3)
    nmax = 3
    if d.get("big"):
        nmax = 6
        long_members = sorted((w for w in R.language_upto(6) if len(w) > 3 and set(w) <= set(alphabet)), key=repr)[:25]
        near = []
        for w in long_members[:10]:
            near += [w[:i] + w[i + 1:] for i in range(len(w))] + [w[:i] + w[i + 1:i + 2] + w[i:i + 1] + w[i + 2:]
                                                                  for i in range(len(w) - 1)]
        words = words + [w for w in long_members + near if w not in words]
    lang = {w for w in R.language_upto(nmax) if set(w) <= set(alphabet)}
    lang = {w for w in lang if w in set(words)} if d.get("big") else lang
    with guard(failures, "to_pda"):
        P = g.to_pda()
        X = ref_pda.from_lib(P)
        got = X.lang_empty_stack(words)
        if got != lang:
            failures.append(fail("to_pda", "language", {"missing": sorted(lang - got, key=repr)[:3],
                                                        "extra": sorted(got - lang, key=repr)[:3]}))
        G2 = ref_cfg.lib_to_ref(P.to_cfg())
        got2 = {w for w in G2.language_upto(nmax) if set(w) <= set(alphabet)}
        got2 = {w for w in got2 if w in set(words)} if d.get("big") else got2
        if got2 != lang:
            failures.append(fail("to_pda.to_cfg", "language", {"missing": sorted(lang - got2, key=repr)[:3],
                                                               "extra": sorted(got2 - lang, key=repr)[:3]}))
    labels = ["cfg", "vpool:" + d.get("vpool", "?")]
    return {"failures": failures, "labels": labels, "nontrivial": 0 < len(lang) < len(words)}


def health(classes, n, tier):
    need = {"eps_moves": 0.08, "multi_symbol_push": 0.08, "no_final_state": 0.012,
            "empty_stack_language_nonempty": 0.032, "final_state_language_nonempty": 0.04, "cfg": 0.06}
    for k, frac in need.items():
        if classes.get(k, 0) < frac * n:
            return "class %s too rare: %d of %d" % (k, classes.get(k, 0), n)
    return None
