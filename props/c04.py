"""C04 Automaton emptiness, determinism, acyclicity and word enumeration are exact."""
import itertools

from hypothesis import strategies as st

from vlib.common import fail, guard, dec
from vlib import ref_fa, gen_fa

ID = "C04"
RULE = ("case = finite-automaton description (class enfa/nfa/dfa, <=5 states, <=12 transitions, "
        "9 state-name pools, 6 symbol pools) + list of bounds; is_empty/is_deterministic/is_acyclic/"
        "get_accepted_words(n) compared with reachability, the 3-clause definition, DFS cycle search and "
        "the bounded language of an independent reference NFA.  Non-trivial: >=2 accepted words of length "
        "<=4 AND (a state that is not co-reachable OR an epsilon cycle OR >=2 start states). "
        "Distinct = SHA-1 of the canonical JSON case.")
ASSUMPTIONS = ["reference NFA semantics (vlib/ref_fa.py) is the textbook definition",
               "bounds sampled from {0..5}; n=None only when the reference says the language is finite",
               "sizes bounded: <=5 states (random tier), exhaustive scopes as stated"]
BUDGET = {"quick": 1200, "thorough": 8000}
WATCHDOG = 20
EXHAUSTIVE_SCOPE = {
    "quick": "all 4096 epsilon-NFAs with 2 states over {a, eps} and every start/final marking, bounds 2,3",
    "thorough": "all 2-state ENFAs over {a,eps} (4096) and all 3-state single-start ENFAs over {a,eps} "
                "(2^18*3*8 = 6291456), bounds 2 and 3, sharded over 16 hash seeds",
}


def strategy(tier, flags):
    return st.fixed_dictionaries({
        "fa": gen_fa.fa_desc(),
        "bounds": st.lists(st.integers(0, 5), min_size=1, max_size=3, unique=True),
    })


def exhaustive(tier, shard, nshards):
    from vlib.scope import enfa_scope, sharded
    for d in sharded(enfa_scope(2, False), shard, nshards):
        yield {"fa": d, "bounds": [2, 3]}
    if tier == "thorough":
        for d in sharded(enfa_scope(3, True), shard, nshards):
            yield {"fa": d, "bounds": [2, 3]}


def run_case(case):
    failures = []
    d = case["fa"]
    R = ref_fa.from_desc(d)
    with guard(failures, "build"):
        A = ref_fa.build_lib(d)
    if failures:
        return {"failures": failures}
    with guard(failures, "is_empty"):
        got = A.is_empty()
        if got != R.is_empty():
            failures.append(fail("is_empty", "wrong:%s" % got))
    with guard(failures, "is_deterministic"):
        got = A.is_deterministic()
        if got != R.is_deterministic_def():
            failures.append(fail("is_deterministic", "wrong:%s" % got))
    with guard(failures, "is_acyclic"):
        got = A.is_acyclic()
        if got != (not R.has_reachable_cycle()):
            failures.append(fail("is_acyclic", "wrong:%s" % got))
    finite = R.is_finite_language()
    bounds = list(case["bounds"])
    if finite:
        bounds.append(None)
    full = None
    for n in bounds:
        if n is None:
            # the complete finite language: words are shorter than the number of subset states
            exp = R.words_upto(len(R.determinise().states) + 1)
            full = exp
        else:
            exp = R.words_upto(n)
        sub = "words" if n is not None else "words_unbounded"
        with guard(failures, sub):
            got = []
            for w in A.get_accepted_words(n):
                got.append(tuple(s.value for s in w))
                if len(got) > 5000 + 2 * len(exp):
                    failures.append(fail(sub, "too_many", n))
                    break
            if len(got) != len(set(got)):
                failures.append(fail(sub, "duplicate", (n, sorted(got, key=repr)[:6])))
            gs = set(got)
            if gs - exp:
                failures.append(fail(sub, "extra", (n, sorted(gs - exp, key=repr)[:4])))
            if exp - gs:
                failures.append(fail(sub, "missing", (n, sorted(exp - gs, key=repr)[:4])))
    # ------------------------------------------------------------ classification
    labels = [d["cls"], "pool:" + d.get("pool", "scope")]
    w4 = R.words_upto(4)
    not_co = bool(R.states - R.coreachable())
    epscyc = R.has_eps_cycle()
    if not_co:
        labels.append("non_coreachable_state")
    if epscyc:
        labels.append("eps_cycle")
    if len(R.starts) >= 2:
        labels.append("multi_start")
    if finite:
        labels.append("finite_language")
    if R.is_empty():
        labels.append("empty_language")
    if R.is_deterministic_def():
        labels.append("deterministic")
    if not R.has_reachable_cycle():
        labels.append("acyclic")
    if R.reachable() - R.coreachable() and (R.finals & R.reachable()):
        labels.append("state_behind_final_or_dead")
    nontrivial = len(w4) >= 2 and (not_co or epscyc or len(R.starts) >= 2)
    return {"failures": failures, "labels": labels, "nontrivial": nontrivial}


def health(classes, n, tier):
    need = {"eps_cycle": 0.008, "non_coreachable_state": 0.04, "multi_start": 0.02,
            "finite_language": 0.04, "deterministic": 0.02, "acyclic": 0.02}
    for k, frac in need.items():
        if classes.get(k, 0) < frac * n:
            return "class %s too rare: %d of %d" % (k, classes.get(k, 0), n)
    return None
