"""C18 Feature grammars: unification is the glb and membership respects unification."""
from hypothesis import strategies as st

from vlib.common import fail, guard, words_upto
from vlib import ref_fs, ref_cfg, gen_cfg

ID = "C18"
RULE = ("two kinds of cases. (unify) an ordered pair of consistently typed feature structures of depth <=3 (atomic "
        "features with values from one domain - strings, or the falsy / mixed values 0, '', 1 - or unspecified, complex features with fixed sub-signatures, re-entrancy "
        "by node sharing; built through the API and, when re-entrancy-free, also through from_text): a.unify(b) must "
        "succeed exactly when the reference union-find graph unification finds no clash; afterwards every reference "
        "path exists in a with the same value, the partition of paths into shared nodes is the same and there is no "
        "extra path; the swapped order gives the same observation; a clash raises exactly "
        "FeatureStructuresNotCompatibleException. (fcfg) a feature grammar, in text form or built through the constructors "
        "with the two values replaced by (0, 1), ('', 'x') or (1, '1') (<=3 non-terminals with "
        "signatures within {n, p}, one value domain {u, v}, constants / variables / omitted features, epsilon "
        "productions, left recursion, same-skeleton productions with different features, one-per-line and '|' forms): "
        "contains(w) for all words <=4 must equal membership in the ground instantiation (least fixpoint); "
        "feature-free grammars must agree with CFG.contains. Non-trivial: (unify) both structures have >=2 paths and "
        "share at least one path; (fcfg) a variable shared between head and body and both verdicts occur. "
        "Distinct = SHA-1 of canonical JSON.")
ASSUMPTIONS = ["reference unification: union-find on graphs (vlib/ref_fs.py)",
               "one value domain for all features, so every unbound feature variable has a ground instance",
               "feature structures are consistently typed (a feature is atomic or complex, never both)"]
BUDGET = {"quick": 500, "thorough": 6000}
WATCHDOG = 30


def strategy(tier, flags):
    unify = st.sampled_from([False, False, True]).flatmap(lambda fz: st.fixed_dictionaries(
        {"kind": st.just("unify"), "a": ref_fs.fs_desc(falsy=fz), "b": ref_fs.fs_desc(falsy=fz)}))
    fcfg = st.fixed_dictionaries({"kind": st.just("fcfg"), "f": ref_fs.fcfg_desc(),
                                  "alternatives": st.booleans(),
                                  "how": st.sampled_from(["text", "text", "falsy", "empty", "int_str"])})
    plain = st.fixed_dictionaries({"kind": st.just("fcfg"), "f": ref_fs.fcfg_desc(features=False),
                                   "alternatives": st.booleans()})
    return st.one_of(unify, fcfg, fcfg, plain)


def run_case(case):
    if case["kind"] == "unify":
        return run_unify(case)
    return run_fcfg(case)


def run_unify(case):
    from pyformlang.fcfg.feature_structure import FeatureStructuresNotCompatibleException, FeatureStructure
    failures = []
    G = ref_fs.Graph()
    ra, rb = G.load(case["a"]), G.load(case["b"])
    pa0, _ = G.observe(ra)
    pb0, _ = G.observe(rb)
    ok = G.unify(ra, rb)
    expected = G.observe(ra) if ok else None
    results = {}
    ta, tb = ref_fs.fs_to_text(case["a"]), ref_fs.fs_to_text(case["b"])
    rounds = ("ab", "ba") + (("text",) if ta is not None and tb is not None else ())
    for order in rounds:
        with guard(failures, "build"):
            if order == "text":
                # both structures read from their text form (they use the same variable names ?v1, ?v2 ...: the
                # names are local to each call)
                A = FeatureStructure.from_text(ta)
                B = FeatureStructure.from_text(tb)
            else:
                # in the second round the structures have answered path queries while they were being built
                A = ref_fs.build_lib_fs(case["a"], ask=(order == "ba"))
                B = ref_fs.build_lib_fs(case["b"], ask=(order == "ba"))
        if failures:
            return {"failures": failures}
        recv, arg = (B, A) if order == "ba" else (A, B)
        sub = "unify_" + order
        try:
            recv.unify(arg)
            raised = False
        except FeatureStructuresNotCompatibleException:
            raised = True
        except Exception as exc:
            from vlib.common import exc_failure, lib_frame
            if lib_frame(exc) == "harness":
                raise
            failures.append(exc_failure(sub, exc))
            continue
        if raised and ok:
            failures.append(fail(sub, "refused_compatible"))
        elif not raised and not ok:
            failures.append(fail(sub, "accepted_clash"))
        elif ok:
            with guard(failures, sub):
                got = ref_fs.observe_lib_fs(recv)
                if got[0] != expected[0]:
                    missing = sorted(set(expected[0].items()) - set(got[0].items()), key=repr)[:3]
                    extra = sorted(set(got[0].items()) - set(expected[0].items()), key=repr)[:3]
                    failures.append(fail(sub, "paths_or_values", {"missing": missing, "extra": extra}))
                elif got[1] != expected[1]:
                    failures.append(fail(sub, "sharing_partition_differs"))
                elif order == "ba":
                    # the same structures built without the interleaved queries, unified the same way, list the
                    # same paths (what get_all_paths() itself should list after a unification is not judged here)
                    A2, B2 = ref_fs.build_lib_fs(case["a"]), ref_fs.build_lib_fs(case["b"])
                    B2.unify(A2)
                    fresh = sorted(map(tuple, B2.get_all_paths()))
                    aged = sorted(map(tuple, recv.get_all_paths()))
                    if fresh != aged:
                        failures.append(fail(sub, "get_all_paths_depends_on_history",
                                             {"fresh": fresh[:4], "queried_while_built": aged[:4]}))
                results[order] = got
    shared = set(pa0) & set(pb0) - {()}
    labels = ["unify", "compatible" if ok else "clash"] + (["text_form"] if "text" in rounds else [])
    if any(len(g) > 1 for g in (expected[1] if expected else [])):
        labels.append("reentrancy_in_result")
    nt = len(pa0) >= 3 and len(pb0) >= 3 and bool(shared)
    return {"failures": failures, "labels": labels, "nontrivial": nt}


def run_fcfg(case):
    from pyformlang.fcfg import FCFG
    from pyformlang.cfg import CFG
    failures = []
    d = case["f"]
    G = ref_fs.ground(d)
    text = ref_fs.fcfg_text(d, alternatives=case.get("alternatives", False))
    how = case.get("how", "text")
    with guard(failures, "build"):
        if how == "text":
            g = FCFG.from_text(text)
        else:
            g = ref_fs.build_lib_fcfg_api(d, ref_fs.VALUE_MAPS[how])
    if failures:
        return {"failures": failures}
    lang = G.language_upto(4)
    words = words_upto(["a", "b"], 4) + [("a", "zz"), ("zz",)]
    verdicts = set()
    with guard(failures, "contains"):
        for w in words:
            got = g.contains(list(w))
            verdicts.add(got)
            if got != (w in lang):
                failures.append(fail("contains", "wrong:%s" % got, {"word": w, "text": text}))
                break
    featured = any(hf or any(b[0] == "V" and b[2] for b in body) for _h, hf, body in d["prods"])
    if not featured:
        with guard(failures, "feature_free_vs_cfg"):
            c = CFG.from_text(text)
            for w in words:
                if g.contains(list(w)) != c.contains(list(w)):
                    failures.append(fail("feature_free_vs_cfg", "differs", {"word": w, "text": text}))
                    break
    labels = ["fcfg", "featured" if featured else "feature_free", "how:" + how]
    if any(not body for _h, _hf, body in d["prods"]):
        labels.append("epsilon_production")
    if any(body and body[0][0] == "V" and body[0][1] == h for h, _hf, body in d["prods"]):
        labels.append("left_recursive")
    shared_var = False
    for _h, hf, body in d["prods"]:
        hv = {v for v in hf.values() if v.startswith("?")}
        bv = {v for b in body if b[0] == "V" for v in b[2].values() if v.startswith("?")}
        if hv & bv:
            shared_var = True
    if shared_var:
        labels.append("variable_shared_head_body")
    skel = {}
    for h, hf, body in d["prods"]:
        key = (h, tuple((b[0], b[1]) for b in body))
        skel.setdefault(key, set()).add(repr((hf, body)))
    if any(len(v) > 1 for v in skel.values()):
        labels.append("same_skeleton_different_features")
    if case.get("alternatives"):
        labels.append("alternatives_syntax")
    nt = (shared_var or not featured) and len(verdicts) == 2
    return {"failures": failures, "labels": labels, "nontrivial": nt}


def health(classes, n, tier):
    need = {"unify": 0.06, "compatible": 0.02, "clash": 0.012, "featured": 0.08, "feature_free": 0.04,
            "epsilon_production": 0.032, "variable_shared_head_body": 0.02, "left_recursive": 0.02,
            "same_skeleton_different_features": 0.004}
    for k, frac in need.items():
        if classes.get(k, 0) < frac * n:
            return "class %s too rare: %d of %d" % (k, classes.get(k, 0), n)
    return None
