"""C08 CFG membership answers are exactly derivability from the start symbol."""
import itertools

from hypothesis import strategies as st

from vlib.common import fail, guard, words_upto
from vlib import ref_cfg, gen_cfg

ID = "C08"
RULE = ("case = CFG description (<=4 variables, <=8 productions, bodies of 0-4 symbols, explicit unit and epsilon "
        "productions, useless symbols, start symbol possibly without productions, declared-but-unused symbols, "
        "terminals spelled like variables, int-valued symbols; built with CFG(...)+Production or CFG.from_text). "
        "contains(w) and `w in cfg` for every word of length <=3 over terminals+foreign symbol, every member of length "
        "4 and some non-members of length 4, and generate_epsilon(), must equal membership in the reference bounded "
        "language (least fixpoint, no parsing). Unknown symbols must give False, not an exception. Non-trivial: "
        ">=2 words of length <=4 in the language and the grammar has an epsilon or unit production or a useless "
        "symbol. Distinct = SHA-1 of canonical JSON.")
ASSUMPTIONS = ["reference = least fixpoint of bounded languages per variable (vlib/ref_cfg.py)",
               "sizes bounded: <=4 variables, <=8 productions, words of length <=4"]
BUDGET = {"quick": 800, "thorough": 6000}
FUZZ = {"procs": 4, "runs": 8000}      # atheris supplement of the thorough tier (vlib/fuzz.py)
WATCHDOG = 30
EXHAUSTIVE_SCOPE = {
    "thorough": "all grammars over variables {S,A}, terminals {a,b}, with 1-3 distinct productions with bodies of "
                "length <=2 (every set of <=3 of the 2*(1+4+16)=42 possible productions: 12383 grammars), all words <=3",
}


def strategy(tier, flags):
    return st.fixed_dictionaries({"g": gen_cfg.cfg_desc(start_always=False)})


def exhaustive(tier, shard, nshards):
    if tier != "thorough":
        return
    syms = [["V", "S"], ["V", "A"], ["T", "a"], ["T", "b"]]
    bodies = [[]] + [[x] for x in syms] + [[x, y] for x in syms for y in syms]
    prods = [[h, b] for h in ("S", "A") for b in bodies]
    idx = 0
    for k in (1, 2, 3):
        for combo in itertools.combinations(prods, k):
            if idx % nshards == shard:
                yield {"g": {"start": "S", "prods": [list(p) for p in combo], "how": "ctor",
                             "vpool": "scope", "tpool": "scope"}}
            idx += 1


def test_words(R, terminals, full=4):
    alphabet = list(terminals)[:3] + [gen_cfg.FOREIGN]
    words = words_upto(alphabet, 3)
    lang = R.language_upto(full)
    words = words + sorted((w for w in lang if 4 <= len(w) <= full), key=repr)[:60]
    nonmembers = [w for w in itertools.product(sorted(terminals, key=repr)[:2], repeat=4) if w not in lang][:8]
    # near misses of long members: one symbol dropped
    for w in sorted((w for w in lang if len(w) >= 4), key=repr)[:12]:
        for i in range(len(w)):
            v = w[:i] + w[i + 1:]
            if v not in lang and v not in nonmembers:
                nonmembers.append(v)
    return words + nonmembers[:40], lang


def grammar_labels(R, d):
    labels = ["vpool:" + d.get("vpool", "?"), "tpool:" + d.get("tpool", "?"), "how:" + d.get("how", "ctor")]
    has_eps = any(not b for _h, b in R.prods)
    has_unit = any(len(b) == 1 and b[0][0] == 'V' for _h, b in R.prods)
    gen = R.generating()
    reach = R.reachable()
    useless = any(v not in gen or ('V', v) not in reach for v in R.vars)
    if has_eps:
        labels.append("epsilon_production")
    if has_unit:
        labels.append("unit_production")
    if any(len(b) == 1 and b[0] == ('V', h) for h, b in R.prods):
        labels.append("self_unit")
    if useless:
        labels.append("useless_symbol")
    if any(len(b) > 2 for _h, b in R.prods):
        labels.append("long_body")
    if any(b and b[0] == ('V', h) for h, b in R.prods):
        labels.append("left_recursive")
    if not any(h == R.start for h, _b in R.prods):
        labels.append("start_without_production")
    if {x for x in R.terms} & {x for x in R.vars}:
        labels.append("shared_spelling")
    return labels, (has_eps or has_unit or useless)


def run_case(case):
    failures = []
    d = case["g"]
    R = ref_cfg.from_desc(d)
    with guard(failures, "build"):
        g = ref_cfg.build_lib(d)
    if failures:
        return {"failures": failures}
    words, lang = test_words(R, sorted(R.terms, key=repr), full=6 if d.get("big") else 4)
    with guard(failures, "contains"):
        for w in words:
            got = g.contains(list(w))
            if got != (w in lang):
                failures.append(fail("contains", "wrong:%s" % got, w))
                break
    with guard(failures, "in_operator"):
        for w in words[:25]:
            got = list(w) in g
            if got != (w in lang):
                failures.append(fail("in_operator", "wrong:%s" % got, w))
                break
    with guard(failures, "contains_terminal_objects"):
        from pyformlang.cfg import Terminal
        for w in words[:25]:
            got = g.contains([Terminal(x) for x in w])
            if got != (w in lang):
                failures.append(fail("contains_terminal_objects", "wrong:%s" % got, w))
                break
    with guard(failures, "contains_one_shot_iterable"):
        # the word is documented as an iterable: a generator that can be consumed once, and a tuple
        for w in words[:25]:
            got = g.contains(x for x in w)
            got2 = g.contains(tuple(w))
            if got != (w in lang) or got2 != (w in lang):
                failures.append(fail("contains_one_shot_iterable", "wrong:%s/%s" % (got, got2), w))
                break
    with guard(failures, "generate_epsilon"):
        got = g.generate_epsilon()
        if got != (() in lang):
            failures.append(fail("generate_epsilon", "wrong:%s" % got))
    with guard(failures, "second_call"):
        # the same object asked again (cached normal form) answers the same
        for w in words[:15]:
            if g.contains(list(w)) != (w in lang):
                failures.append(fail("second_call", "wrong", w))
                break
    labels, special = grammar_labels(R, d)
    if () in lang:
        labels.append("epsilon_in_language")
    if d.get("big"):
        labels.append("big")
    return {"failures": failures, "labels": labels, "nontrivial": len(lang) >= 2 and special}


def health(classes, n, tier):
    need = {"epsilon_production": 0.06, "unit_production": 0.06, "useless_symbol": 0.06, "self_unit": 0.004,
            "left_recursive": 0.04, "how:text": 0.02, "epsilon_in_language": 0.02}
    for k, frac in need.items():
        if classes.get(k, 0) < frac * n:
            return "class %s too rare: %d of %d" % (k, classes.get(k, 0), n)
    return None
