"""C10 CFG union/concatenation/closure/reversal/substitution build exactly that set."""
from hypothesis import strategies as st

from vlib.common import fail, guard, words_upto, dec
from vlib import ref_cfg, gen_cfg
from vlib.ref_cfg import RefCFG

ID = "C10"
RULE = ("case = ordered pair (G1, G2) of CFG descriptions over symbols drawn from the same pools "
        "(shared variable names; variables named like the library's fresh symbols #STARTUNION#, A#SUBS#0, ...), "
        "G2 possibly the start-less grammar CFG(), and a substitution choice. union, concatenate, get_closure, "
        "get_positive_closure, reverse, substitute and | + ~, also with the same object as both operands, are "
        "extracted and their bounded language (length <=4, least fixpoint) compared with the set-theoretic "
        "combination of the operands' reference bounded languages; contains() is compared on all words <=3. "
        "Non-trivial: both operand languages non-empty (<=4) and different. Distinct = SHA-1 of canonical JSON.")
ASSUMPTIONS = ["variable values are strings or ints",
               "bounded languages up to length 4 decide equality of the results"]
BUDGET = {"quick": 500, "thorough": 4000}
WATCHDOG = 40
N = 4


@st.composite
def pair(draw):
    vp = draw(st.sampled_from(["std", "fresh", "std", "fresh", "long", "lower", "ints", "int_str"]))
    tp = draw(st.sampled_from(["ab", "ab", "abc", "tok", "shared", "fresh", "int_str"]))
    g1 = draw(gen_cfg.cfg_desc(var_pools=[vp], term_pools=[tp], max_prods=6, max_body=3))
    k = draw(st.integers(0, 9))
    if k == 0:
        g2 = {"start": None, "prods": [], "how": "ctor", "vpool": vp, "tpool": tp}
    else:
        g2 = draw(gen_cfg.cfg_desc(var_pools=[vp], term_pools=[tp], max_prods=6, max_body=3))
    ts = gen_cfg.terminals_of(g1)
    sub = {"first": draw(st.integers(0, 5)), "second_self": draw(st.booleans())}
    return {"g1": g1, "g2": g2, "sub": sub}


def strategy(tier, flags):
    return pair()


def cut(words):
    return {w for w in words if len(w) <= N}


def concat(L1, L2):
    return {u + v for u in L1 for v in L2 if len(u) + len(v) <= N}


def star(L, plus=False):
    res = set(L) if plus else {()}
    cur = set(res)
    while True:
        new = concat(cur, L) - res
        if not new:
            return res | (set() if plus else {()})
        res |= new
        cur = new


def substituted(R1, mapping):
    """reference substitution: terminals in mapping are replaced by tagged copies of grammars"""
    prods = []
    repl = {}
    for i, (t, R2) in enumerate(sorted(mapping.items(), key=repr)):
        tag = lambda v, i=i: ("sub", i, v)
        for h, b in R2.prods:
            prods.append((tag(h), tuple(('V', tag(x)) if k == 'V' else ('T', x) for k, x in b)))
        repl[t] = tag(R2.start) if R2.start is not None else ("sub", i, "#nostart#")
    for h, b in R1.prods:
        nb = []
        for k, x in b:
            if k == 'T' and x in repl:
                nb.append(('V', repl[x]))
            elif k == 'V':
                nb.append(('V', ("main", x)))
            else:
                nb.append((k, x))
        prods.append((("main", h), tuple(nb)))
    return RefCFG(("main", R1.start), prods)


def run_case(case):
    failures = []
    R1, R2 = ref_cfg.from_desc(case["g1"]), ref_cfg.from_desc(case["g2"])
    with guard(failures, "build"):
        g1, g2 = ref_cfg.build_lib(case["g1"]), ref_cfg.build_lib(case["g2"])
    if failures:
        return {"failures": failures}
    L1, L2 = R1.language_upto(N), R2.language_upto(N)
    terms = sorted(R1.terms | R2.terms, key=repr)
    words = words_upto(terms[:3] + [gen_cfg.FOREIGN], 3)
    snap1, snap2 = ref_cfg.lib_to_ref(g1).prod_set(), ref_cfg.lib_to_ref(g2).prod_set()

    def check(name, f, expected):
        with guard(failures, name):
            res = f()
            G = ref_cfg.lib_to_ref(res)
            got = G.language_upto(N)
            if got != expected:
                failures.append(fail(name, "language", {"missing": sorted(expected - got, key=repr)[:3],
                                                        "extra": sorted(got - expected, key=repr)[:3]}))
            else:
                for w in words:
                    c = res.contains(list(w))
                    if c != (w in expected):
                        failures.append(fail(name + ".contains", "wrong:%s" % c, w))
                        break
    for phase in ("fresh", "warmed"):
        if phase == "warmed":
            # the same operations on operands that have already answered queries (normal form, symbol sets cached)
            with guard(failures, "warm_up"):
                for g_ in (g1, g2):
                    for w in words[:6]:
                        g_.contains(list(w))
                    g_.is_empty()
                    g_.is_finite()
                    g_.get_generating_symbols()
        run_battery(check, phase, g1, g2, R1, R2, L1, L2, case)
    # the same operations on operands that are themselves results of language-preserving transformations (their
    # production objects and bodies may be shared inside the grammar)
    d1 = d2 = None
    with guard(failures, "derive_operands"):
        d1, d2 = g1.eliminate_unit_productions(), g2.remove_useless_symbols()
    if d1 is not None and d2 is not None:
        run_battery(check, "derived", d1, d2, R1, R2, L1, L2, case)
    with guard(failures, "operand_unchanged"):
        if ref_cfg.lib_to_ref(g1).prod_set() != snap1 or ref_cfg.lib_to_ref(g2).prod_set() != snap2:
            failures.append(fail("operand_unchanged", "changed"))
    labels = ["vpool:" + case["g1"].get("vpool", "?"), "tpool:" + case["g1"].get("tpool", "?")]
    if case["g2"]["start"] is None:
        labels.append("startless_operand")
    if not L1 or not L2:
        labels.append("empty_operand_language")
    if L1 == {()} or L2 == {()}:
        labels.append("epsilon_only_language")
    if {repr(v) for v in R1.vars} & {repr(v) for v in R2.vars}:
        labels.append("shared_variable_names")
    return {"failures": failures, "labels": labels, "nontrivial": bool(L1 and L2 and L1 != L2)}


def run_battery(check0, phase, g1, g2, R1, R2, L1, L2, case):
    from pyformlang.cfg import Terminal

    def check(name, f, expected):
        check0(name if phase == "fresh" else name + "@" + phase, f, expected)
    check("union", lambda: g1.union(g2), L1 | L2)
    check("or_operator", lambda: g1 | g2, L1 | L2)
    check("union_swapped", lambda: g2.union(g1), L1 | L2)
    check("union_self", lambda: g1.union(g1), L1)
    check("concatenate", lambda: g1.concatenate(g2), concat(L1, L2))
    check("add_operator", lambda: g1 + g2, concat(L1, L2))
    check("concatenate_self", lambda: g1.concatenate(g1), concat(L1, L1))
    check("get_closure", lambda: g1.get_closure(), star(L1))
    check("get_positive_closure", lambda: g1.get_positive_closure(), star(L1, plus=True))
    check("reverse", lambda: g1.reverse(), {w[::-1] for w in L1})
    check("invert_operator", lambda: ~g1, {w[::-1] for w in L1})
    ts = sorted(R1.terms, key=repr)
    if ts:
        t1 = ts[case["sub"]["first"] % len(ts)]
        mapping_lib = {Terminal(t1): g2}
        mapping_ref = {t1: R2}
        if case["sub"]["second_self"] and len(ts) > 1:
            t2 = ts[(case["sub"]["first"] + 1) % len(ts)]
            mapping_lib[Terminal(t2)] = g1
            mapping_ref[t2] = R1
        check("substitute", lambda: g1.substitute(mapping_lib),
              substituted(R1, mapping_ref).language_upto(N))


def health(classes, n, tier):
    need = {"shared_variable_names": 0.2, "startless_operand": 0.012, "empty_operand_language": 0.012,
            "vpool:fresh": 0.032}
    for k, frac in need.items():
        if classes.get(k, 0) < frac * n:
            return "class %s too rare: %d of %d" % (k, classes.get(k, 0), n)
    return None
