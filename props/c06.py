"""C06 Automaton to regular expression (Kleene) conversion preserves the language."""
from hypothesis import strategies as st

from vlib.common import fail, guard, words_upto
from vlib import ref_fa, gen_fa

ID = "C06"
RULE = ("case = epsilon-NFA description whose symbols are plain tokens (alphanumerics of length 1-3, '_' and '-' "
        "inside, or the integers 0-2 read as their str()), 0-3 start states, 0-3 final states, start=final, self loops, parallel edges, epsilon edges, string "
        "and other state-name pools (elimination order follows set order, 16 PYTHONHASHSEED values). r = to_regex(); "
        "the epsilon-NFA of r is extracted and compared EXACTLY (product equivalence decision) with the reference "
        "automaton; r.accepts agrees on all words of length <=3; any exception of to_regex is a failure. "
        "Non-trivial: >=3 states, non-empty language and a state that is neither start nor final lying on a cycle. "
        "Distinct = SHA-1 of canonical JSON.")
ASSUMPTIONS = ["the language of the returned Regex is read through Regex.to_epsilon_nfa / Regex.accepts (judged by C05)",
               "symbols restricted to plain tokens as the property states",
               "sizes bounded: <=5 states, <=12 transitions"]
BUDGET = {"quick": 400, "thorough": 5000}
WATCHDOG = 30


def strategy(tier, flags):
    return st.fixed_dictionaries({"fa": gen_fa.fa_desc(
        sym_pools=gen_fa.PLAIN_SYM_POOLS + ["int"], classes=("enfa", "enfa", "enfa", "nfa", "dfa"), allow_extra=False, big_states=(6, 7, 8))})


EXHAUSTIVE_SCOPE = {
    "quick": "all 4096 epsilon-NFAs with 2 states over {a, eps} and every start/final marking",
    "thorough": "all 2-state epsilon-NFAs over {a, b, eps} with every start/final marking (65536) and all 3-state "
                "epsilon-NFAs over {a, eps} with start state 0 and the inner state 1 neither start nor final, so that it is "
                "eliminated (262144 transition sets x 4 final markings within {0, 2} = 1048576)",
}


def exhaustive(tier, shard, nshards):
    from vlib.scope import enfa_scope, sharded
    if tier == "quick":
        for d in sharded(enfa_scope(2, False), shard, nshards):
            yield {"fa": dict(d, pool="scope", sympool="abc")}
        return
    for d in sharded(enfa_scope(2, False, labels=("a", "b", None)), shard, nshards):
        yield {"fa": dict(d, pool="scope", sympool="abc")}
    # three states, state 1 is an inner state (never start, never final): every elimination pattern over {a, eps}
    for d in sharded(enfa_scope(3, True), shard, nshards):
        if d["starts"] == [0] and 1 not in d["finals"]:
            yield {"fa": dict(d, pool="scope", sympool="abc")}


def run_case(case):
    failures = []
    d = case["fa"]
    R = ref_fa.from_desc(d)
    if d.get("sympool") == "int":
        # integer symbols (0 is falsy) print as the plain tokens "0", "1", "2": the regular expression speaks
        # about those tokens, so the reference language is relabelled through str()
        R = ref_fa.RefNFA(R.states, R.starts, R.finals,
                          [(p, a if a is ref_fa.EPS else str(a), q) for p, a, q in R.trans])
    with guard(failures, "build"):
        A = ref_fa.build_lib(d)
    if failures:
        return {"failures": failures}
    before = ref_fa.from_lib(A).desc()
    with guard(failures, "to_regex"):
        r = A.to_regex()
        M = ref_fa.from_lib(r.to_epsilon_nfa())
        w = ref_fa.equivalent(R, M, R.alphabet | M.alphabet | {gen_fa.FOREIGN})
        if w is not None:
            failures.append(fail("to_regex", "language", {"word": w, "in_automaton": R.accepts(w),
                                                          "regex": str(r)}))
        for wd in words_upto(sorted(R.alphabet, key=repr) + [gen_fa.FOREIGN], 3):
            got = r.accepts(list(wd))
            if got != R.accepts(wd):
                failures.append(fail("to_regex.accepts", "wrong:%s" % got, {"word": wd, "regex": str(r)}))
                break
    with guard(failures, "operand_unchanged"):
        if ref_fa.from_lib(A).desc() != before:
            failures.append(fail("operand_unchanged", "changed"))
    labels = ["pool:" + d.get("pool", "?"), "cls:" + d["cls"], "starts:%d" % len(R.starts),
              "finals:%d" % min(len(R.finals), 3)]
    if R.starts & R.finals:
        labels.append("start_is_final")
    if R.is_empty():
        labels.append("empty_language")
    if R.has_eps():
        labels.append("has_eps")
    # an eliminated (neither start nor final) state on a cycle
    inner = R.states - R.starts - R.finals
    on_cycle = False
    adj = R.successors()
    for s in inner:
        seen = set()
        todo = list(adj[s])
        while todo:
            x = todo.pop()
            if x == s:
                on_cycle = True
                break
            if x not in seen:
                seen.add(x)
                todo.extend(adj[x])
        if on_cycle:
            break
    if on_cycle:
        labels.append("eliminated_state_on_cycle")
    nontrivial = len(R.states) >= 3 and on_cycle and not R.is_empty()
    return {"failures": failures, "labels": labels, "nontrivial": nontrivial}


def health(classes, n, tier):
    need = {"eliminated_state_on_cycle": 0.032, "start_is_final": 0.02, "has_eps": 0.06, "starts:2": 0.012,
            "finals:2": 0.02, "starts:0": 0.004, "finals:0": 0.004}
    for k, frac in need.items():
        if classes.get(k, 0) < frac * n:
            return "class %s too rare: %d of %d" % (k, classes.get(k, 0), n)
    return None
