"""C11 Intersection with a regular language (CFG and PDA) is exact."""
from hypothesis import strategies as st

from vlib.common import fail, guard, words_upto
from vlib import ref_pda, ref_cfg, ref_fa, ref_regex, gen_pda, gen_cfg, gen_fa

ID = "C11"
RULE = ("case = (CFG description | PDA description) x regular operand (regex AST rendered to text | automaton "
        "description of class DFA / NFA / EpsilonNFA, deterministic or not, incl. deterministic automata of the NFA and "
        "EpsilonNFA classes), alphabets overlapping partly, empty languages and the empty word on either side. CFG: "
        "the grammar returned by intersection / & is extracted; its bounded language (<=4) must equal L(G)<=4 "
        "intersected with the reference automaton's language, and contains() agrees on words <=3. PDA: the PDA returned "
        "by intersection / & is extracted and evaluated by the reference interpreter (final state) against 'accepted "
        "by the PDA by final state and by the automaton' on all words <=3. Operands of other types must raise "
        "NotImplementedError. Non-trivial: the intersection (within the bound) is non-empty and strictly smaller than "
        "both operand languages. Distinct = SHA-1 of canonical JSON.")
ASSUMPTIONS = ["reference models: vlib/ref_cfg.py, vlib/ref_pda.py, vlib/ref_fa.py, vlib/ref_regex.py",
               "string-valued symbols on both sides",
               "PDA results are evaluated by the reference interpreter, not by the library"]
BUDGET = {"quick": 600, "thorough": 5000}
WATCHDOG = 60
SYMS = ["a", "b", "c"]


@st.composite
def regular(draw, syms):
    kind = draw(st.sampled_from(["fa", "regex", "fa", "fa"]))
    use = draw(st.lists(st.sampled_from(syms + ["d"]), min_size=1, max_size=3, unique=True))
    if kind == "regex":
        ast = draw(ref_regex.ast_strategy(use, eps=True))
        text = ref_regex.render_text(draw, ref_regex.render_tokens(draw, ast))
        return {"kind": "regex", "ast": ast, "text": text}
    if not draw(st.booleans()):
        # a complete automaton over the grammar's symbols: dense languages intersect non-trivially
        pool = gen_fa.STATE_POOLS[draw(st.sampled_from(["int", "str", "mixed", "merged"]))]
        n = draw(st.integers(1, 3))
        names = draw(st.lists(st.sampled_from(pool), min_size=n, max_size=n, unique_by=repr))
        from vlib.common import enc
        trans = [[enc(p), a, enc(draw(st.sampled_from(names)))] for p in names for a in use]
        if draw(st.integers(0, 2)) == 0:
            trans.append([enc(draw(st.sampled_from(names))), draw(st.sampled_from(use)),
                          enc(draw(st.sampled_from(names)))])
            trans = [t for i, t in enumerate(trans) if t not in trans[:i]]
        nondet = len({(repr(t[0]), t[1]) for t in trans}) != len(trans)
        finals = draw(st.lists(st.sampled_from(names), min_size=1, max_size=2, unique_by=repr))
        cls = draw(st.sampled_from(["nfa", "enfa"] if nondet else ["dfa", "nfa", "enfa"]))
        return {"kind": "fa", "fa": {"cls": cls, "how": "mut", "order": "tsf", "trans": trans,
                                     "starts": [enc(names[0])], "finals": [enc(f) for f in finals]}}
    d = draw(gen_fa.fa_desc(max_states=3, max_trans=7, state_pools=["int", "str", "mixed", "merged"],
                            force_syms=use, allow_extra=False, big_states=(6, 7, 8)))
    if draw(st.integers(0, 3)) == 0 and d["cls"] == "dfa":
        # a deterministic automaton that is not of the DFA class
        d["cls"] = draw(st.sampled_from(["nfa", "enfa"]))
    return {"kind": "fa", "fa": d}


@st.composite
def case_strategy(draw):
    if draw(st.integers(0, 2)) < 2:
        g = draw(gen_cfg.cfg_desc(var_pools=["std", "std", "long", "fresh", "int_str"], term_pools=["ab", "abc", "shared", "int_str"],
                                  max_prods=6, max_body=3, start_always=False))
        if draw(st.integers(0, 14)) == 9:
            # the start-less grammar CFG() (what an intersection with an empty language returns) as operand
            g = {"start": None, "prods": [], "how": "ctor", "vpool": "std", "tpool": "ab"}
        syms = [str(t) for t in gen_cfg.terminals_of(g)] or ["a"]
        return {"kind": "cfg", "g": g, "r": draw(regular(syms[:3]))}
    p = draw(gen_pda.pda_desc(sym_pools=["ab", "a", "tok"], state_pools=["str", "int", "reserved", "int_str"]))
    if draw(st.integers(0, 14)) == 9:
        p = {"start": None, "z0": None, "finals": [], "trans": [], "how": "mut"}     # PDA(), the library's empty result
    syms = [t[1] for t in p["trans"] if t[1] is not None]
    syms = sorted(set(syms)) or ["a"]
    return {"kind": "pda", "p": p, "r": draw(regular(syms[:3]))}


def strategy(tier, flags):
    return case_strategy()


def build_regular(r):
    if r["kind"] == "regex":
        from pyformlang.regular_expression import Regex
        return Regex(r["text"]), ref_regex.thompson(r["ast"])
    return ref_fa.build_lib(r["fa"]), ref_fa.from_desc(r["fa"])


def run_case(case):
    failures = []
    with guard(failures, "build"):
        lib_r, RR = build_regular(case["r"])
    if failures:
        return {"failures": failures}
    labels = [case["kind"], "regular:" + (case["r"]["kind"] if case["r"]["kind"] == "regex" else case["r"]["fa"]["cls"])]
    if case["r"]["kind"] == "fa":
        if RR.is_deterministic_def() and not RR.has_eps() and case["r"]["fa"]["cls"] != "dfa":
            labels.append("deterministic_non_DFA_class")
        snap_r = ref_fa.from_lib(lib_r).desc()
    if RR.is_empty():
        labels.append("regular_empty")
    if RR.accepts(()):
        labels.append("regular_accepts_epsilon")
    if case["kind"] == "cfg":
        R = ref_cfg.from_desc(case["g"])
        with guard(failures, "build"):
            g = ref_cfg.build_lib(case["g"])
        if failures:
            return {"failures": failures}
        LG = R.language_upto(4)
        exp = {w for w in LG if RR.accepts(w)}
        snap = ref_cfg.lib_to_ref(g).prod_set()
        alphabet = sorted({str(t) for t in R.terms} | set(map(str, RR.alphabet)))[:3] + [gen_cfg.FOREIGN]
        words = words_upto(alphabet, 3)
        for name, f in (("intersection", lambda: g.intersection(lib_r)), ("and_operator", lambda: g & lib_r)):
            with guard(failures, "cfg." + name):
                res = f()
                G = ref_cfg.lib_to_ref(res)
                got = G.language_upto(4)
                if got != exp:
                    failures.append(fail("cfg." + name, "language", {"missing": sorted(exp - got, key=repr)[:3],
                                                                     "extra": sorted(got - exp, key=repr)[:3]}))
                else:
                    for w in words:
                        c = res.contains(list(w))
                        if c != (w in exp):
                            failures.append(fail("cfg." + name + ".contains", "wrong:%s" % c, w))
                            break
        with guard(failures, "cfg.second_intersection"):
            # the same operands intersected again give the same language
            G = ref_cfg.lib_to_ref(g.intersection(lib_r))
            if G.language_upto(4) != exp:
                failures.append(fail("cfg.second_intersection", "language"))
        for bad in ("a", 3, g):
            try:
                g.intersection(bad)
                failures.append(fail("cfg.bad_operand", "no_exception", type(bad).__name__))
            except NotImplementedError:
                pass
            except Exception as exc:
                failures.append(fail("cfg.bad_operand", "exception:" + type(exc).__name__, type(bad).__name__))
        with guard(failures, "operand_unchanged"):
            if ref_cfg.lib_to_ref(g).prod_set() != snap:
                failures.append(fail("operand_unchanged", "grammar_changed"))
        if not LG:
            labels.append("cfl_empty")
        if () in LG:
            labels.append("cfl_has_epsilon")
        L_r4 = RR.words_upto(4, set(R.terms) | RR.alphabet)
        nt = bool(exp) and exp != LG and exp != L_r4
        if exp:
            labels.append("intersection_nonempty")
    else:
        R = ref_pda.from_desc(case["p"])
        with guard(failures, "build"):
            P = ref_pda.build_lib(case["p"])
        if failures:
            return {"failures": failures}
        alphabet = sorted(set(R.alphabet) | set(RR.alphabet), key=repr)[:3] + [gen_pda.FOREIGN]
        words = words_upto(alphabet, 3)
        by_final = R.lang_final(words)
        exp = {w for w in by_final if RR.accepts(w)}
        snap = ref_pda.from_lib(P).desc()
        for name, f in (("intersection", lambda: P.intersection(lib_r)), ("and_operator", lambda: P & lib_r)):
            with guard(failures, "pda." + name):
                X = ref_pda.from_lib(f())
                got = X.lang_final(words)
                if got != exp:
                    failures.append(fail("pda." + name, "language", {"missing": sorted(exp - got, key=repr)[:3],
                                                                     "extra": sorted(got - exp, key=repr)[:3]}))
        for bad in ("a", 3, P):
            try:
                P.intersection(bad)
                failures.append(fail("pda.bad_operand", "no_exception", type(bad).__name__))
            except NotImplementedError:
                pass
            except Exception as exc:
                failures.append(fail("pda.bad_operand", "exception:" + type(exc).__name__, type(bad).__name__))
        with guard(failures, "operand_unchanged"):
            if ref_pda.from_lib(P).desc() != snap:
                failures.append(fail("operand_unchanged", "pda_changed"))
        L_r3 = {w for w in words if RR.accepts(w)}
        nt = bool(exp) and exp != by_final and exp != L_r3
        if exp:
            labels.append("intersection_nonempty")
        if not by_final:
            labels.append("pda_language_empty")
    if case["r"]["kind"] == "fa":
        with guard(failures, "operand_unchanged"):
            if ref_fa.from_lib(lib_r).desc() != snap_r:
                failures.append(fail("operand_unchanged", "automaton_changed"))
    if nt:
        labels.append("nontrivial")
    return {"failures": failures, "labels": labels, "nontrivial": nt}


def health(classes, n, tier):
    need = {"nontrivial": 0.02, "cfg": 0.12, "pda": 0.06, "regular:regex": 0.04, "regular:nfa": 0.032,
            "deterministic_non_DFA_class": 0.004, "regular_empty": 0.008, "intersection_nonempty": 0.04}
    for k, frac in need.items():
        if classes.get(k, 0) < frac * n:
            return "class %s too rare: %d of %d" % (k, classes.get(k, 0), n)
    return None
