"""C01 Automaton acceptance and determinise / eps-removal / minimise / copy keep the language."""
from hypothesis import strategies as st

from vlib.common import fail, guard, dec, words_upto
from vlib import ref_fa, gen_fa
from vlib.ref_fa import EPS

ID = "C01"
RULE = ("case = finite-automaton description (class enfa/nfa/dfa, <=5 states, <=12 transitions, 8 state-name "
        "pools incl. names that look like the library's merged names, 6 symbol pools incl. ints/tuples/mixed types). "
        "accepts(w) for every word of length <=3 over alphabet+foreign symbol (and with 'epsilon' tokens inserted for "
        "EpsilonNFA) must equal the reference run semantics; to_deterministic, remove_epsilon_transitions, minimize, "
        "copy are extracted through public observers and compared EXACTLY (product equivalence decision) with the "
        "reference language, plus the advertised shape.  Non-trivial: language neither empty nor everything up to "
        "length 3 AND the description is not already deterministic and epsilon-free. Distinct = SHA-1 of canonical JSON.")
ASSUMPTIONS = ["reference NFA semantics (vlib/ref_fa.py) is the textbook definition",
               "state/symbol values sampled from int, str, tuple, frozenset and mixed pools (not every hashable)",
               "words containing the epsilon spelling are only sent to EpsilonNFA.accepts (documented there)",
               "sizes bounded: <=5 states in the random tier; exhaustive scopes as stated"]
BUDGET = {"quick": 1200, "thorough": 8000}
FUZZ = {"procs": 4, "runs": 20000}      # atheris supplement of the thorough tier (vlib/fuzz.py)
WATCHDOG = 20
EXHAUSTIVE_SCOPE = {
    "quick": "all 4096 epsilon-NFAs with 2 states over {a, eps} and every start/final marking",
    "thorough": "all 2-state ENFAs over {a,eps} (4096) and all 3-state single-start ENFAs over {a,eps} (6291456)",
}


def strategy(tier, flags):
    return st.fixed_dictionaries({"fa": gen_fa.fa_desc()})


def exhaustive(tier, shard, nshards):
    from vlib.scope import enfa_scope, sharded
    for d in sharded(enfa_scope(2, False), shard, nshards):
        yield {"fa": d}
    if tier == "thorough":
        for d in sharded(enfa_scope(3, True), shard, nshards):
            yield {"fa": d}


def shape_problems(M, want_det, want_noeps):
    """M: extracted RefNFA of a result"""
    out = []
    if want_noeps and M.has_eps():
        out.append("epsilon_edge")
    if want_det:
        if len(M.starts) > 1:
            out.append("several_starts")
        for (p, a), T in M.delta.items():
            if a is not EPS and len(T) > 1:
                out.append("two_successors")
                break
    return out


def run_case(case):
    from pyformlang.finite_automaton import DeterministicFiniteAutomaton, EpsilonNFA
    failures = []
    d = case["fa"]
    R = ref_fa.from_desc(d)
    with guard(failures, "build"):
        A = ref_fa.build_lib(d)
    if failures:
        return {"failures": failures}
    alphabet = sorted(R.alphabet, key=repr)
    words = words_upto(alphabet + [gen_fa.FOREIGN], 3)
    # ---- self-test of the reference: the two ways of computing the bounded language must agree
    if {w for w in words if R.accepts(w)} != R.words_upto(3, alphabet + [gen_fa.FOREIGN]):
        from vlib.common import HarnessError
        raise HarnessError("reference NFA: accepts() and words_upto() disagree on %r" % (d,))
    # ---- (a) accepts
    with guard(failures, "accepts"):
        for w in words:
            got = A.accepts(list(w))
            if got != R.accepts(w):
                failures.append(fail("accepts", "wrong:%s" % got, w))
                break
        # the word is documented as an iterable: tuples, one-shot generators, Symbol objects
        from pyformlang.finite_automaton import Symbol
        for w in words[:30]:
            got = (A.accepts(tuple(w)), A.accepts(x for x in w), A.accepts([Symbol(x) for x in w]))
            if any(g != R.accepts(w) for g in got):
                failures.append(fail("accepts_iterable_forms", "wrong:%s" % (got,), w))
                break
        if d["cls"] == "enfa":
            for w in words[:40]:
                w2 = ["epsilon"]
                for x in w:
                    w2 += [x, "epsilon"]
                got = A.accepts(w2)
                if got != R.accepts(w):
                    failures.append(fail("accepts_eps_tokens", "wrong:%s" % got, w))
                    break
    # ---- (b) transformations
    ops = [("to_deterministic", lambda a: a.to_deterministic(), True, True),
           ("remove_epsilon_transitions", lambda a: a.remove_epsilon_transitions(), False, True),
           ("minimize", lambda a: a.minimize(), True, True),
           ("copy", lambda a: a.copy(), False, False)]
    before = ref_fa.from_lib(A).desc()
    for name, op, want_det, want_noeps in ops:
        with guard(failures, name):
            res = op(A)
            M = ref_fa.from_lib(res)
            w = ref_fa.equivalent(R, M, R.alphabet | M.alphabet | {gen_fa.FOREIGN})
            if w is not None:
                failures.append(fail(name, "language", {"word": w, "in_original": R.accepts(w)}))
            for pb in shape_problems(M, want_det, want_noeps):
                failures.append(fail(name, "shape:" + pb))
            if want_det:
                if not isinstance(res, DeterministicFiniteAutomaton):
                    failures.append(fail(name, "shape:not_a_DFA", type(res).__name__))
                if not res.is_deterministic():
                    failures.append(fail(name, "shape:is_deterministic_false"))
            if name == "copy":
                if res is A:
                    failures.append(fail(name, "same_object"))
                # soundness: copy() of an NFA is documented to give an EpsilonNFA and drops isolated
                # states / unused declared symbols; the property only promises the same language
            # (c) the result's own accepts agrees with the reference
            for wd in words[:30]:
                got = res.accepts(list(wd))
                if got != R.accepts(wd):
                    failures.append(fail(name + ".accepts", "wrong:%s" % got, wd))
                    break
    with guard(failures, "operand_unchanged"):
        if ref_fa.from_lib(A).desc() != before:
            failures.append(fail("operand_unchanged", "changed"))
    # ---- classification
    labels = [d["cls"], "pool:" + d.get("pool", "scope"), "sym:" + d.get("sympool", "scope")]
    w3 = R.words_upto(3)
    allw = len(words_upto(alphabet, 3))
    if R.has_eps_cycle():
        labels.append("eps_cycle")
    if len(R.starts) >= 2:
        labels.append("multi_start")
    if R.states - R.reachable():
        labels.append("unreachable_state")
    if R.reachable() - R.coreachable():
        labels.append("dead_state")
    if d.get("pool") in gen_fa.UNSAFE_POOLS:
        labels.append("name_unsafe_pool")
    plain = R.is_deterministic_def() and not R.has_eps()
    if not plain:
        labels.append("nondeterministic_or_eps")
    nontrivial = 0 < len(w3) < allw and not plain
    return {"failures": failures, "labels": labels, "nontrivial": nontrivial}


def health(classes, n, tier):
    need = {"eps_cycle": 0.008, "multi_start": 0.02, "unreachable_state": 0.02, "dead_state": 0.02,
            "nondeterministic_or_eps": 0.08}
    for k, frac in need.items():
        if classes.get(k, 0) < frac * n:
            return "class %s too rare: %d of %d" % (k, classes.get(k, 0), n)
    return None
