"""C14 LL(1): FIRST/FOLLOW, the LL(1) verdict and the table-driven parser are correct."""
from hypothesis import strategies as st

from vlib.common import fail, guard, words_upto, enc
from vlib import ref_cfg, gen_cfg, trees

ID = "C14"
RULE = ("case = CFG description without useless symbols: either a random grammar reduced by the reference to its useful "
        "part, or a grammar built to be LL(1)-like (alternatives of a variable start with different terminals, optional "
        "epsilon alternative, nullable non-empty bodies, left recursion injected sometimes), or a layered 'cascade' "
        "grammar of 3-6 variables whose bodies mention later variables only (nullable through non-empty bodies, predictions "
        "through FOLLOW sets several levels up), or a 'nullable web' (variables nullable only through non-empty bodies that "
        "occur in bodies of each other and of themselves, production order permuted). get_first_set / "
        "get_follow_set on every variable must equal the textbook FIRST (epsilon iff nullable) and FOLLOW ($ for the "
        "start symbol); is_llone_parsable() must equal 'predict sets of each variable pairwise disjoint'; when LL(1): "
        "for all words <=3 over terminals+foreign symbol, all members of length 4 and their one-symbol extensions, "
        "get_llone_parse_tree returns a tree (validated as a real derivation of the word) iff the word is a member and "
        "raises NotParsableException otherwise, never another error. The whole battery runs four times: on a fresh "
        "grammar object and on objects that first answered is_empty / generating / reachable (warmed), contains / nullable "
        "/ is_empty (nullable_first), or an earlier LL(1) verdict / is_empty / is_finite (reparsed). Non-trivial: LL(1) grammar with a nullable "
        "variable and >=2 members (<=4), or a non-LL(1) grammar with >=2 members. Distinct = SHA-1 of canonical JSON.")
ASSUMPTIONS = ["textbook FIRST/FOLLOW/PREDICT in vlib/ref_cfg.py", "grammars have no useless symbol (the property's domain)"]
BUDGET = {"quick": 500, "thorough": 6000}
WATCHDOG = 30


def reduce_useful(d):
    R = ref_cfg.from_desc(d)
    keep = R.useful_prods()
    d2 = dict(d)
    d2["prods"] = [[enc(h), [[k, enc(x)] for k, x in b]] for h, b in keep]
    d2.pop("variables", None)
    d2.pop("terminals", None)
    d2["how"] = "ctor"
    return d2


@st.composite
def ll1_like(draw):
    if draw(st.sampled_from([0, 0, 1, 0])) == 1:
        # a bigger grammar: chains of variables-only bodies over many nullable variables
        vs = ["S", "T", "A", "B", "C", "E"][:draw(st.sampled_from([5, 6, 4]))]
        ts = ["a", "b", "c", "d", "e"][:draw(st.sampled_from([4, 5]))]
    else:
        vs = ["S", "A", "B"][:draw(st.sampled_from([2, 3, 1]))]
        ts = ["a", "b", "c"][:draw(st.sampled_from([2, 3]))]
    prods = []
    for v in vs:
        lead = draw(st.lists(st.sampled_from(ts), min_size=1, max_size=len(ts), unique=True))
        if len(vs) > 3 and draw(st.booleans()):
            lead = lead[:1]
        for t in lead:
            tail = draw(st.lists(st.one_of(st.sampled_from(vs).map(lambda x: ["V", x]),
                                           st.sampled_from(ts).map(lambda x: ["T", x])), max_size=2))
            prods.append([v, [["T", t]] + tail])
        k = draw(st.integers(0, 4))
        if k == 0 or (len(vs) > 3 and draw(st.integers(0, 2)) == 0):
            prods.append([v, []])
        elif k == 1 and len(vs) > 1:
            # a body made of variables only (nullable non-empty body when they are nullable)
            prods.append([v, [["V", draw(st.sampled_from(vs))] for _ in range(draw(st.integers(1, 2)))]])
        elif k == 2:
            prods.append([v, [["V", v], ["T", draw(st.sampled_from(ts))]]])   # left recursion
    d = {"start": "S", "prods": prods, "how": "ctor", "vpool": "ll1like", "tpool": "abc"}
    return reduce_useful(d)


@st.composite
def cascade(draw):
    """layered grammars V0..Vk-1: a body only mentions later variables, so the alternatives of a variable start
    differently and conflicts come from FOLLOW only; many variables are nullable, some only through a non-empty
    body, and predictions have to go through FOLLOW sets several levels up"""
    k = draw(st.sampled_from([6, 5, 4, 3]))
    vs = ["S", "T", "A", "B", "C", "E"][:k]
    own = ["s", "t", "a", "b", "c", "e"][:k]
    seps = ["d", "x"]
    prods = []
    for i, v in enumerate(vs):
        later = vs[i + 1:]
        alts = []
        if later:
            form = draw(st.sampled_from(["own+cascade", "cascade", "own+eps", "own+cascade+eps", "cascade+eps", "own"]))
        else:
            form = draw(st.sampled_from(["own+eps", "own"]))
        if "own" in form:
            tail = []
            if later and draw(st.integers(0, 3)) == 3:
                tail = [["V", draw(st.sampled_from(later))]]
            alts.append([["T", own[i]]] + tail)
        if "cascade" in form:
            n = min(len(later), draw(st.sampled_from([2, 1, 3])))
            idx = sorted(draw(st.lists(st.integers(0, len(later) - 1), min_size=n, max_size=n, unique=True)))
            body = [["V", later[j]] for j in idx]
            if draw(st.sampled_from([0, 0, 1])) == 1:
                body.append(["T", draw(st.sampled_from(seps))])
            alts.append(body)
        if "eps" in form:
            alts.append([])
        for b in alts:
            prods.append([v, b])
    d = {"start": "S", "prods": prods, "how": "ctor", "vpool": "cascade", "tpool": "abc"}
    return reduce_useful(d)


@st.composite
def nullable_web(draw):
    """the hard case of the FIRST / FOLLOW fixpoints: variables that are nullable only through non-empty bodies and
    occur in bodies of each other and of themselves (also behind a nullable prefix), so that a set computed early has
    to be revisited when nullability arrives late; only one or two variables have an explicit empty production"""
    k = draw(st.sampled_from([3, 2, 4]))
    vs = ["S", "A", "B", "C"][:k]
    ts = ["a", "b", "c"]
    prods = []
    leaves = draw(st.lists(st.sampled_from(vs[1:]), min_size=1, max_size=2, unique=True))
    sym = st.one_of(st.sampled_from(vs).map(lambda v: ["V", v]), st.sampled_from(vs).map(lambda v: ["V", v]),
                    st.sampled_from(ts).map(lambda t: ["T", t]))
    for v in vs:
        if v in leaves:
            prods.append([v, []])
        for _ in range(draw(st.integers(0 if v in leaves else 1, 2 if v in leaves else 3))):
            b = draw(st.lists(sym, min_size=1, max_size=3))
            if [v, b] not in prods:
                prods.append([v, b])
    prods = draw(st.permutations(prods))
    d = {"start": "S", "prods": [list(p) for p in prods], "how": "ctor", "vpool": "web", "tpool": "abc"}
    return reduce_useful(d)


def strategy(tier, flags):
    rnd = gen_cfg.cfg_desc(var_pools=["std", "long"], term_pools=["ab", "abc", "tok"], max_prods=7, max_body=3,
                           allow_text=False).map(reduce_useful)
    base = st.one_of(ll1_like(), rnd, cascade(), ll1_like(), nullable_web()).filter(lambda d: len(d["prods"]) > 0)
    # one case in eight: a terminal whose value is "$", the spelling of the parser's own end-of-input marker
    return st.tuples(base, st.sampled_from([0, 0, 0, 0, 1, 0, 0, 0])).map(
        lambda t: {"g": rename_terminal(t[0], "$") if t[1] else t[0]})


def rename_terminal(d, new):
    """the first terminal (by repr) of the description renamed to `new` throughout"""
    terms = sorted({repr(x): x for _h, b in d["prods"] for k, x in b if k == "T"}.items())
    if not terms:
        return d
    old = terms[0][1]
    d2 = dict(d)
    d2["prods"] = [[h, [[k, (new if k == "T" and x == old else x)] for k, x in b]] for h, b in d["prods"]]
    d2["tpool"] = "dollar"
    return d2


EXHAUSTIVE_SCOPE = {
    "thorough": "the useful part of every grammar over variables {S,A}, terminals {a,b}, with 1-3 distinct productions "
                "with bodies of length <=2 (scope of C08; grammars with an empty useful part are skipped)",
}


def exhaustive(tier, shard, nshards):
    from props import c08
    for c in c08.exhaustive(tier, shard, nshards):
        d = reduce_useful(c["g"])
        if d["prods"]:
            yield {"g": d}


def run_case(case):
    from pyformlang.cfg import Variable, Terminal, Epsilon
    from pyformlang.cfg.llone_parser import LLOneParser
    from pyformlang.cfg.cfg import NotParsableException
    failures = []
    d = case["g"]
    R = ref_cfg.from_desc(d)
    res = None
    first = None
    for phase in ("fresh", "warmed", "nullable_first", "reparsed"):
        with guard(failures, "build"):
            g = ref_cfg.build_lib(d)
            # the grammar object has answered other queries, in different orders, before the parser is built on it
            if phase == "warmed":
                g.is_empty()
                g.get_generating_symbols()
                g.get_reachable_symbols()
                g.remove_useless_symbols()
            elif phase == "nullable_first":
                g.contains([])
                g.get_nullable_symbols()
                g.is_empty()
                g.remove_useless_symbols()
            elif phase == "reparsed":
                LLOneParser(g).is_llone_parsable()
                g.is_empty()
                g.is_finite()
            parser = LLOneParser(g)
        if failures:
            return {"failures": failures}
        res = check_parser(R, d, parser, failures, "" if phase == "fresh" else "@" + phase)
        if first is None:
            first = res
        if failures:
            break
    res = first if first is not None else res
    res["failures"] = failures
    return res


def check_parser(R, d, parser, failures, suffix):
    from pyformlang.cfg import Variable, Terminal, Epsilon
    from pyformlang.cfg.cfg import NotParsableException
    first = R.first_sets()
    follow = R.follow_sets(end=ref_cfg.END)
    ll1 = R.is_ll1()

    def conv(s):
        out = set()
        for x in s:
            if isinstance(x, Epsilon):
                out.add(None)
            elif isinstance(x, Terminal):
                out.add(x.value)
            else:
                out.add(("?", repr(x)))
        return out
    with guard(failures, "get_first_set" + suffix):
        fs = parser.get_first_set()
        for v in sorted(R.vars, key=repr):
            got = conv(fs.get(Variable(v), set()))
            if got != first[v]:
                failures.append(fail("get_first_set" + suffix, "differs", {"var": v, "got": sorted(got, key=repr),
                                                                  "expected": sorted(first[v], key=repr)}))
                break
    with guard(failures, "get_follow_set" + suffix):
        fo = parser.get_follow_set()
        for v in sorted(R.vars, key=repr):
            raw = fo.get(Variable(v), set())
            got = {(ref_cfg.END if not isinstance(x, Terminal) and x == "$" else (x.value if isinstance(x, Terminal) else ("?", repr(x))))
                   for x in raw}
            if got != follow[v]:
                failures.append(fail("get_follow_set" + suffix, "differs", {"var": v, "got": sorted(got, key=repr),
                                                                   "expected": sorted(follow[v], key=repr)}))
                break
    with guard(failures, "is_llone_parsable" + suffix):
        got = parser.is_llone_parsable()
        if got != ll1:
            failures.append(fail("is_llone_parsable" + suffix, "wrong:%s" % got))
    lang = R.language_upto(5)
    members4 = sorted((w for w in lang if len(w) == 4), key=repr)[:12]
    terms = sorted(R.terms, key=repr)
    words = words_upto(terms[:3] + [gen_cfg.FOREIGN], 3) + members4
    # every short member, whatever terminals it uses (grammars with more than three terminals)
    words += [w for w in sorted((w for w in lang if len(w) <= 3), key=repr)[:60] if w not in words]
    for w in members4[:6]:
        for t in terms[:2]:
            words.append(w + (t,))
    if ll1:
        prods = R.prod_set()
        for w in words:
            sub = "get_llone_parse_tree" + suffix
            try:
                tree = parser.get_llone_parse_tree(list(w))
            except NotParsableException:
                if w in lang:
                    failures.append(fail(sub, "member_refused", w))
                    break
                continue
            except Exception as exc:
                from vlib.common import exc_failure, lib_frame
                if lib_frame(exc) == "harness":
                    raise
                failures.append(exc_failure(sub, exc))
                break
            if w not in lang:
                failures.append(fail(sub, "non_member_parsed", w))
                break
            pb = trees.validate_tree(tree, prods, R.start, w)
            if pb:
                failures.append(fail(sub, "invalid_tree", {"word": w, "problems": pb[:3]}))
                break
    labels = ["ll1" if ll1 else "not_ll1", "src:" + d.get("vpool", "?")]
    if d.get("tpool") == "dollar":
        labels.append("terminal_named_dollar")
    nl = R.nullable()
    if nl:
        labels.append("nullable_variable")
    if any(b and all(k == 'V' and x in nl for k, x in b) for _h, b in R.prods):
        labels.append("nullable_nonempty_body")
    if any(b and b[0] == ('V', h) for h, b in R.prods):
        labels.append("left_recursive")
    n_members = len({w for w in lang if len(w) <= 4})
    if ll1 and nl and n_members >= 2:
        labels.append("ll1_with_nullable_and_members")
    nontrivial = n_members >= 2 and (not ll1 or bool(nl))
    return {"failures": failures, "labels": labels, "nontrivial": nontrivial}


def health(classes, n, tier):
    need = {"ll1": 0.08, "not_ll1": 0.08, "nullable_variable": 0.08, "nullable_nonempty_body": 0.012,
            "left_recursive": 0.02, "ll1_with_nullable_and_members": 0.016}
    for k, frac in need.items():
        if classes.get(k, 0) < frac * n:
            return "class %s too rare: %d of %d" % (k, classes.get(k, 0), n)
    return None
