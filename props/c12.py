"""C12 CFG emptiness, finiteness, symbol classes and word enumeration are exact."""
from hypothesis import strategies as st

from vlib.common import fail, guard
from vlib import ref_cfg, gen_cfg
from props.c08 import grammar_labels

ID = "C12"
RULE = ("case = CFG description as in C08 + bounds n in 0..5. is_empty, is_finite, get_generating_symbols, "
        "get_nullable_symbols, get_reachable_symbols must equal the reference least fixpoints (is_finite: growing "
        "cycle among useful variables, cross-checked by an independent length-set criterion); get_words(n): every "
        "item a list of Terminal, no duplicate, set equal to the reference bounded language; get_words() without "
        "bound when the reference says finite and the longest word has length <=7 (hard cap 5000 items). "
        "Non-trivial: >=2 words within the largest bound and an epsilon/unit production or useless symbol. "
        "Distinct = SHA-1 of canonical JSON.")
ASSUMPTIONS = ["reference fixpoints in vlib/ref_cfg.py; two independent finiteness criteria must agree (else harness error)",
               "declared terminals count as generating symbols (they derive themselves)"]
BUDGET = {"quick": 800, "thorough": 6000}
WATCHDOG = 30


def strategy(tier, flags):
    return st.fixed_dictionaries({
        "g": gen_cfg.cfg_desc(start_always=False, max_body=3),
        "bounds": st.lists(st.integers(0, 5), min_size=1, max_size=3, unique=True)})


EXHAUSTIVE_SCOPE = {
    "thorough": "all grammars over variables {S,A}, terminals {a,b}, with 1-3 distinct productions with bodies of "
                "length <=2 (12383 grammars, the scope of C08)",
}


def exhaustive(tier, shard, nshards):
    from props import c08
    for c in c08.exhaustive(tier, shard, nshards):
        yield {"g": c["g"], "bounds": [2, 3]}


def run_case(case):
    from pyformlang.cfg import Variable, Terminal
    failures = []
    d = case["g"]
    R = ref_cfg.from_desc(d)
    with guard(failures, "build"):
        g = ref_cfg.build_lib(d)
    if failures:
        return {"failures": failures}
    finite = R.is_finite()
    if finite != R.is_finite_by_lengths(bound=40) and len(R.useful_prods()) and \
            max(len(b) for _h, b in R.prods) ** (len(R.vars) + 1) <= 40:
        from vlib.common import HarnessError
        raise HarnessError("reference finiteness criteria disagree on %r" % (d,))
    with guard(failures, "is_empty"):
        got = g.is_empty()
        if got != R.is_empty():
            failures.append(fail("is_empty", "wrong:%s" % got))
    with guard(failures, "is_finite"):
        got = g.is_finite()
        if got != finite:
            failures.append(fail("is_finite", "wrong:%s" % got))

    def key(s):
        return ('V', s.value) if isinstance(s, Variable) else ('T', s.value)
    with guard(failures, "get_generating_symbols"):
        got = {key(s) for s in g.get_generating_symbols()}
        exp = {('V', v) for v in R.generating()} | {('T', t) for t in R.terms}
        if got != exp:
            failures.append(fail("get_generating_symbols", "differs",
                                 {"missing": sorted(exp - got, key=repr), "extra": sorted(got - exp, key=repr)}))
    with guard(failures, "get_nullable_symbols"):
        got = {key(s) for s in g.get_nullable_symbols()}
        exp = {('V', v) for v in R.nullable()}
        if got != exp:
            failures.append(fail("get_nullable_symbols", "differs",
                                 {"missing": sorted(exp - got, key=repr), "extra": sorted(got - exp, key=repr)}))
    with guard(failures, "get_reachable_symbols"):
        got = {key(s) for s in g.get_reachable_symbols()}
        exp = R.reachable()
        if got != exp:
            failures.append(fail("get_reachable_symbols", "differs",
                                 {"missing": sorted(exp - got, key=repr), "extra": sorted(got - exp, key=repr)}))
    bound_list = list(case["bounds"]) + ([6, 7] if d.get("big") else [])
    bounds = [(n, R.language_upto(n)) for n in bound_list]
    maxlen = ref_cfg.max_word_length(R) if finite else None
    if finite and (maxlen is None or maxlen <= 7):
        bounds.append((None, R.language_upto(maxlen if maxlen is not None else 0)))
    for n, exp in bounds:
        sub = "get_words" if n is not None else "get_words_unbounded"
        with guard(failures, sub):
            got = []
            it = g.get_words(n) if n is not None else g.get_words()
            for w in it:
                if not isinstance(w, list) or not all(isinstance(x, Terminal) for x in w):
                    failures.append(fail(sub, "not_a_list_of_terminals", repr(w)))
                    break
                got.append(tuple(x.value for x in w))
                if len(got) > 5000 + 2 * len(exp):
                    failures.append(fail(sub, "too_many", n))
                    break
            gs = set(got)
            if len(got) != len(gs):
                failures.append(fail(sub, "duplicate", n))
            if gs - exp:
                failures.append(fail(sub, "extra", (n, sorted(gs - exp, key=repr)[:3])))
            if exp - gs:
                failures.append(fail(sub, "missing", (n, sorted(exp - gs, key=repr)[:3])))
    # the same questions again, after the normal form and the other caches have been filled
    with guard(failures, "second_pass"):
        for name, got, exp in (("is_empty", g.is_empty(), R.is_empty()), ("is_finite", g.is_finite(), finite),
                               ("get_generating_symbols", {key(s) for s in g.get_generating_symbols()},
                                {('V', v) for v in R.generating()} | {('T', t) for t in R.terms}),
                               ("get_nullable_symbols", {key(s) for s in g.get_nullable_symbols()},
                                {('V', v) for v in R.nullable()}),
                               ("get_reachable_symbols", {key(s) for s in g.get_reachable_symbols()}, R.reachable())):
            if got != exp:
                failures.append(fail("second_pass." + name, "wrong_after_other_queries"))
    labels, special = grammar_labels(R, d)
    if R.language_upto(3) == {()} and finite:
        labels.append("epsilon_only_language")
    labels.append("finite" if finite else "infinite")
    if R.is_empty():
        labels.append("empty_language")
    if bounds and bounds[-1][0] is None:
        labels.append("unbounded_enumeration")
    big = max(len(e) for _n, e in bounds)
    return {"failures": failures, "labels": labels, "nontrivial": big >= 2 and special}


def health(classes, n, tier):
    need = {"finite": 0.08, "infinite": 0.08, "unbounded_enumeration": 0.04, "empty_language": 0.012,
            "epsilon_production": 0.06}
    for k, frac in need.items():
        if classes.get(k, 0) < frac * n:
            return "class %s too rare: %d of %d" % (k, classes.get(k, 0), n)
    return None
