"""C16 FST translation is the transduction relation; FST operations compose relations."""
from hypothesis import strategies as st

from vlib.common import fail, guard, words_upto
from vlib import ref_fst, ref_fa, gen_fa
from vlib.ref_fst import INFINITE

ID = "C16"
RULE = ("two kinds of cases. (fst) an ordered pair of transducer descriptions drawn from the same state pool (string / "
        "int / colliding names such as s0-s00, 0-'0'-'00', star-star0), several start and final states, epsilon-input "
        "moves, epsilon cycles stripped of their output (the property's domain), start states with incoming and final "
        "states with outgoing transitions: set(translate(w)) must equal the reference output set for every input word "
        "of length <=3 over the input symbols + a foreign symbol; union, concatenate, | and + are extracted (states, "
        "start_states, final_states, transitions) and their reference relation compared with the union / pairwise "
        "concatenation of the operand relations; kleene_star against the star of the relation when the relation has no "
        "pair (empty input, non-empty output). (fa) an automaton description: to_fst() extracted, relation == identity "
        "on the accepted words <=3, and translate agrees. Non-trivial: relation with >=2 pairs of which one has "
        "different input and output length. Distinct = SHA-1 of canonical JSON.")
ASSUMPTIONS = ["reference relation by breadth-first search over (position, state, output) (vlib/ref_fst.py)",
               "library-produced transducers are evaluated by the reference interpreter with an output-length guard",
               "epsilon cycles write nothing (domain of the property)"]
BUDGET = {"quick": 400, "thorough": 5000}
FUZZ = {"procs": 4, "runs": 8000}      # atheris supplement of the thorough tier (vlib/fuzz.py)
WATCHDOG = 30


@st.composite
def fst_pair(draw):
    pool = draw(st.sampled_from(["str", "str", "int", "collide", "mixed", "star"]))
    return {"kind": "fst", "f1": draw(ref_fst.fst_desc(pool=pool)), "f2": draw(ref_fst.fst_desc(pool=pool))}


def strategy(tier, flags):
    fa = gen_fa.fa_desc(max_states=4, max_trans=8, sym_pools=["abc", "multi", "tok"], allow_extra=False,
                        state_pools=["int", "str", "mixed", "merged"], classes=("enfa", "enfa", "enfa", "nfa", "dfa"))
    return st.one_of(fst_pair(), fst_pair(), st.fixed_dictionaries({"kind": st.just("fa"), "fa": fa}))


EXHAUSTIVE_SCOPE = {
    "thorough": "every transducer with states {0, 1}, start state 0, any set of final states, and any subset of the 16 "
                "transitions (p, a|eps, q, []|[x]) whose epsilon cycles write nothing, paired with one fixed partner "
                "(0 -a/y-> 1, 1 final) for union / concatenation (57344 transducers x the translation of every input word of length <=3)",
}


def exhaustive(tier, shard, nshards):
    if tier != "thorough":
        return
    import itertools
    possible = [[p, a, q, o] for p in (0, 1) for a in ("a", None) for q in (0, 1) for o in ([], ["x"])]
    partner = {"starts": [0], "finals": [1], "trans": [[0, "a", 1, ["y"]]], "pool": "scope"}
    idx = 0
    for mask in range(2 ** len(possible)):
        trans = [possible[i] for i in range(len(possible)) if mask >> i & 1]
        # the property's domain: epsilon cycles write nothing
        eps = [(t[0], t[2], bool(t[3])) for t in trans if t[1] is None]
        reach = {(p, q) for p, q, _w in eps}
        for k, i, j in itertools.product((0, 1), repeat=3):
            if (i, k) in reach and (k, j) in reach:
                reach.add((i, j))
        if any(w and ((q, p) in reach or p == q) for p, q, w in eps):
            continue
        for finals in ([], [0], [1], [0, 1]):
            if idx % nshards == shard:
                yield {"kind": "fst", "f1": {"starts": [0], "finals": finals, "trans": trans, "pool": "scope"},
                       "f2": partner}
            idx += 1


def rel_concat(r1, r2, words):
    out = {}
    for w in words:
        acc = set()
        for i in range(len(w) + 1):
            for o1 in r1.get(w[:i], ()):
                for o2 in r2.get(w[i:], ()):
                    acc.add(o1 + o2)
        out[w] = acc
    return out


def rel_star(r1, words):
    """star of a relation without (empty input, non-empty output) pairs, restricted to the given input words"""
    out = {w: set() for w in words}
    out[()] = {()}
    # dynamic programming on input length; pairs with empty input only add empty output (ignored)
    for w in sorted(words, key=len):
        acc = set(out[w])
        for i in range(1, len(w) + 1):
            for o1 in r1.get(w[:i], ()):
                for o2 in out.get(w[i:], ()):
                    acc.add(o1 + o2)
        out[w] = acc
    return out


def run_case(case):
    failures = []
    if case["kind"] == "fa":
        return run_fa(case, failures)
    R1, R2 = ref_fst.from_desc(case["f1"]), ref_fst.from_desc(case["f2"])
    with guard(failures, "build"):
        F1, F2 = ref_fst.build_lib(case["f1"]), ref_fst.build_lib(case["f2"])
    if failures:
        return {"failures": failures}
    alphabet = sorted(R1.alphabet | R2.alphabet, key=repr)[:2] + ["zz"]
    words = words_upto(alphabet, 3)
    rel1, rel2 = R1.relation(words), R2.relation(words)
    if rel1 == INFINITE or rel2 == INFINITE:
        from vlib.common import HarnessError
        raise HarnessError("generator produced a writing epsilon cycle: %r" % (case,))
    snap1, snap2 = ref_fst.from_lib(F1).trans, ref_fst.from_lib(F2).trans
    with guard(failures, "translate"):
        for w in words:
            got_list = []
            for o in F1.translate(list(w)):
                got_list.append(tuple(o))
                if len(got_list) > 3000:
                    failures.append(fail("translate", "too_many_outputs", w))
                    break
            got = set(got_list)
            if got != rel1[w]:
                failures.append(fail("translate", "missing" if rel1[w] - got else "extra",
                                     {"word": w, "missing": sorted(rel1[w] - got, key=repr)[:3], "extra": sorted(got - rel1[w], key=repr)[:3]}))
                break

    def check(name, f, expected):
        with guard(failures, name):
            X = ref_fst.from_lib(f())
            got = X.relation(words)
            if got == INFINITE:
                failures.append(fail(name, "writing_epsilon_cycle"))
            elif got != expected:
                bad = [w for w in words if got[w] != expected[w]][0]
                failures.append(fail(name, "relation", {"word": bad, "missing": sorted(expected[bad] - got[bad], key=repr)[:3],
                                                        "extra": sorted(got[bad] - expected[bad], key=repr)[:3]}))
    union = {w: rel1[w] | rel2[w] for w in words}
    check("union", lambda: F1.union(F2), union)
    check("or_operator", lambda: F1 | F2, union)
    check("union_self", lambda: F1.union(F1), rel1)
    conc = rel_concat(rel1, rel2, words)
    check("concatenate", lambda: F1.concatenate(F2), conc)
    check("add_operator", lambda: F1 + F2, conc)
    check("concatenate_self", lambda: F1.concatenate(F1), rel_concat(rel1, rel1, words))
    starable = not (rel1[()] - {()})
    if starable:
        check("kleene_star", lambda: F1.kleene_star(), rel_star(rel1, words))
    with guard(failures, "operand_unchanged"):
        if ref_fst.from_lib(F1).trans != snap1 or ref_fst.from_lib(F2).trans != snap2:
            failures.append(fail("operand_unchanged", "changed"))
    pairs = [(w, o) for w in words for o in rel1[w]]
    labels = ["fst", "pool:" + case["f1"].get("pool", "?")]
    if any(t[1] is None for t in R1.trans):
        labels.append("eps_input_moves")
    if R1.eps_cycle_edges():
        labels.append("eps_cycle")
    if len(R1.starts) >= 2:
        labels.append("multi_start")
    if any(t[2] in R1.starts for t in R1.trans):
        labels.append("start_with_incoming")
    if any(t[0] in R1.finals for t in R1.trans):
        labels.append("final_with_outgoing")
    if starable:
        labels.append("star_checked")
    if {repr(s) for s in R1.states} & {repr(s) for s in R2.states}:
        labels.append("shared_state_names")
    nt = len(pairs) >= 2 and any(len(w) != len(o) for w, o in pairs)
    return {"failures": failures, "labels": labels, "nontrivial": nt}


def run_fa(case, failures):
    d = case["fa"]
    R = ref_fa.from_desc(d)
    with guard(failures, "build"):
        A = ref_fa.build_lib(d)
    if failures:
        return {"failures": failures}
    alphabet = sorted(R.alphabet, key=repr)[:2] + ["zz"]
    words = words_upto(alphabet, 3)
    with guard(failures, "to_fst"):
        F = A.to_fst()
        X = ref_fst.from_lib(F)
        rel = X.relation(words)
        if rel == INFINITE:
            failures.append(fail("to_fst", "writing_epsilon_cycle"))
        else:
            for w in words:
                exp = {w} if R.accepts(w) else set()
                if rel[w] != exp:
                    failures.append(fail("to_fst", "relation", {"word": w, "got": sorted(rel[w], key=repr)[:3]}))
                    break
            for w in words[:20]:
                got = set()
                for k, o in enumerate(F.translate(list(w))):
                    got.add(tuple(o))
                    if k > 500:
                        break
                exp = {w} if R.accepts(w) else set()
                if got != exp:
                    failures.append(fail("to_fst.translate", "wrong", {"word": w, "got": sorted(got, key=repr)[:3]}))
                    break
    labels = ["fa"]
    if R.has_eps():
        labels.append("fa_with_eps")
    if R.has_eps_cycle():
        labels.append("fa_eps_cycle")
    return {"failures": failures, "labels": labels, "nontrivial": len(R.words_upto(3)) >= 2 and R.has_eps()}


def health(classes, n, tier):
    need = {"fst": 0.16, "fa": 0.06, "eps_input_moves": 0.08, "eps_cycle": 0.012, "multi_start": 0.02,
            "start_with_incoming": 0.08, "final_with_outgoing": 0.08, "star_checked": 0.08, "fa_with_eps": 0.012}
    for k, frac in need.items():
        if classes.get(k, 0) < frac * n:
            return "class %s too rare: %d of %d" % (k, classes.get(k, 0), n)
    return None
