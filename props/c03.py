"""C03 Boolean and rational operations on automata compute the set-theoretic result."""
from hypothesis import strategies as st

from vlib.common import fail, guard
from vlib import ref_fa, gen_fa

ID = "C03"
RULE = ("case = ordered pair (A, B) of automaton descriptions (mostly EpsilonNFA: nondeterministic, epsilon moves, "
        "0-3 start states; state names drawn from the same pool so they collide across operands, incl. pools whose "
        "pair names collide; alphabets equal / overlapping / disjoint, declared-but-unused symbols). Each of "
        "get_intersection/&, get_complement/unary -, get_difference/binary -, reverse/~, union, concatenate, "
        "kleene_star is extracted through public observers and compared EXACTLY (product equivalence decision) with "
        "the reference construction (product, determinise-complete-flip over A's own symbol set, A and not B over "
        "the joint alphabet, edge reversal, fresh-state union/concatenation/star). union/concatenate/kleene_star are "
        "only exercised on plain-token symbols (they go through to_regex, the domain of C06). Non-trivial: at least "
        "one binary result language is neither empty nor equal to an operand language, and A is nondeterministic or "
        "has epsilon moves. Distinct = SHA-1 of canonical JSON.")
ASSUMPTIONS = ["reference constructions in vlib/ref_fa.py (textbook)",
               "complement is relative to the operand's own symbol set (used and declared symbols)",
               "sizes bounded: <=4 states per operand"]
BUDGET = {"quick": 1000, "thorough": 8000}
WATCHDOG = 30


@st.composite
def pair(draw):
    plain = draw(st.booleans())
    sp_name = draw(st.sampled_from(gen_fa.PLAIN_SYM_POOLS if plain else list(gen_fa.SYM_POOLS)))
    sp = gen_fa.SYM_POOLS[sp_name]
    sa = draw(st.lists(st.sampled_from(sp), min_size=1, max_size=3, unique_by=repr))
    sb = sa if draw(st.integers(0, 2)) == 0 else \
        draw(st.lists(st.sampled_from(sp), min_size=1, max_size=3, unique_by=repr))
    pool = draw(st.sampled_from(list(gen_fa.STATE_POOLS)))
    classes = ("enfa", "enfa", "enfa", "nfa", "dfa")
    a = draw(gen_fa.fa_desc(max_states=4, max_trans=12, state_pools=[pool], force_syms=sa, classes=classes,
                            big_states=(6, 8, 7, 8)))
    if draw(st.integers(0, 9)) < 3:
        # B is a small edit of A: intersection / difference are then non-trivial
        b = gen_fa.derive_changing(draw, a)
        if draw(st.booleans()):
            b = gen_fa.derive_changing(draw, b)
    else:
        b = draw(gen_fa.fa_desc(max_states=4, max_trans=12, state_pools=[pool], force_syms=sb, classes=classes,
                                big_states=(6, 8, 7, 8)))
    a["sympool"] = b["sympool"] = sp_name
    if not plain and draw(st.integers(0, 3)) == 0:
        unused = [x for x in sp if x not in sa]
        if unused:
            from vlib.common import enc
            a["symbols"] = [enc(unused[0])]
    return {"a": a, "b": b, "plain": plain}


def strategy(tier, flags):
    return pair()


EXHAUSTIVE_SCOPE = {
    "thorough": "all ordered pairs among the 256 NFAs with 2 states over {a} and every start/final marking (65536 "
                "pairs, all operations incl. union/concatenate/kleene_star) and every 2-state epsilon-NFA over "
                "{a, b, eps} (65536) paired with one fixed two-state partner (start 0, final 1, 0-a->1, 1-b->0)",
}


def exhaustive(tier, shard, nshards):
    if tier != "thorough":
        return
    from vlib.scope import enfa_scope
    autos = [d for _i, d in enfa_scope(2, False, labels=("a",))]
    idx = 0
    for x in autos:
        for y in autos:
            if idx % nshards == shard:
                yield {"a": dict(x, pool="scope"), "b": dict(y, pool="scope"), "plain": True}
            idx += 1
    partner = {"cls": "enfa", "how": "mut", "order": "tsf", "trans": [[0, "a", 1], [1, "b", 0]],
               "starts": [0], "finals": [1], "pool": "scope"}
    for i, d in enfa_scope(2, False, labels=("a", "b", None)):
        if i % nshards == shard:
            yield {"a": dict(d, pool="scope"), "b": partner, "plain": True}


def cmp_lang(failures, name, expected, lib_result, alphabet):
    M = ref_fa.from_lib(lib_result)
    w = ref_fa.equivalent(expected, M, set(alphabet) | M.alphabet | expected.alphabet)
    if w is not None:
        failures.append(fail(name, "language", {"word": w, "expected_member": expected.accepts(w)}))
    return M


def run_case(case):
    failures = []
    RA = ref_fa.from_desc(case["a"])
    RB = ref_fa.from_desc(case["b"])
    with guard(failures, "build"):
        A = ref_fa.build_lib(case["a"])
        B = ref_fa.build_lib(case["b"])
    if failures:
        return {"failures": failures}
    before_a, before_b = ref_fa.from_lib(A).desc(), ref_fa.from_lib(B).desc()
    joint = RA.alphabet | RB.alphabet
    foreign = {gen_fa.FOREIGN}
    # the symbol set the library reports must be the used + declared symbols
    with guard(failures, "symbols"):
        if {s.value for s in A.symbols} != RA.alphabet:
            failures.append(fail("symbols", "differs", sorted(map(repr, A.symbols))))
    inter = ref_fa.product(RA, RB)
    compl = RA.complement(RA.alphabet)
    diff = ref_fa.product(RA, RB.complement(joint))
    rev = RA.reverse()
    checks = [
        ("get_intersection", lambda: A.get_intersection(B), inter, joint | foreign),
        ("and_operator", lambda: A & B, inter, joint | foreign),
        ("get_complement", lambda: A.get_complement(), compl, RA.alphabet | foreign),
        ("neg_operator", lambda: -A, compl, RA.alphabet | foreign),
        ("get_difference", lambda: A.get_difference(B), diff, joint | foreign),
        ("sub_operator", lambda: A - B, diff, joint | foreign),
        ("reverse", lambda: A.reverse(), rev, RA.alphabet | foreign),
        ("invert_operator", lambda: ~A, rev, RA.alphabet | foreign),
    ]
    if case.get("plain") and len(RA.states) <= 5 and len(RB.states) <= 5 and len(RA.trans) + len(RB.trans) <= 18:
        # union / concatenate / kleene_star go through state elimination (to_regex): cost explodes on big automata
        checks += [
            ("union", lambda: A.union(B), ref_fa.union(RA, RB), joint | foreign),
            ("concatenate", lambda: A.concatenate(B), ref_fa.concat(RA, RB), joint | foreign),
            ("kleene_star", lambda: A.kleene_star(), ref_fa.star(RA), RA.alphabet | foreign),
        ]
    for name, f, expected, alphabet in checks:
        with guard(failures, name):
            cmp_lang(failures, name, expected, f(), alphabet)
    with guard(failures, "operand_unchanged"):
        if ref_fa.from_lib(A).desc() != before_a or ref_fa.from_lib(B).desc() != before_b:
            failures.append(fail("operand_unchanged", "changed"))
    # ---- classification
    labels = ["pool:" + case["a"].get("pool", "?"), "plain:%s" % bool(case.get("plain")),
              "cls:" + case["a"]["cls"]]
    nd = not (RA.is_deterministic_def() and not RA.has_eps())
    if nd:
        labels.append("A_nondeterministic_or_eps")
    if any(a is None and (T & RA.finals) for (p, a), T in RA.delta.items()):
        labels.append("eps_into_final")
    if len(RA.starts) >= 2:
        labels.append("multi_start")
    if not RA.starts:
        labels.append("no_start")
    if RA.alphabet == RB.alphabet:
        labels.append("alphabet_equal")
    elif RA.alphabet & RB.alphabet:
        labels.append("alphabet_overlap")
    else:
        labels.append("alphabet_disjoint")
    sa = {repr(s) for s in RA.states}
    if sa & {repr(s) for s in RB.states}:
        labels.append("shared_state_names")
    wi, wa, wb = inter.words_upto(3), RA.words_upto(3), RB.words_upto(3)
    wd = diff.words_upto(3, joint)
    interesting = (wi and wi != wa and wi != wb) or (wd and wd != wa)
    if wi:
        labels.append("intersection_nonempty")
    if interesting:
        labels.append("binary_result_interesting")
    return {"failures": failures, "labels": labels, "nontrivial": bool(interesting and nd)}


def health(classes, n, tier):
    need = {"A_nondeterministic_or_eps": 0.12, "multi_start": 0.02, "no_start": 0.004,
            "intersection_nonempty": 0.032, "alphabet_overlap": 0.02, "shared_state_names": 0.12,
            "eps_into_final": 0.012}
    for k, frac in need.items():
        if classes.get(k, 0) < frac * n:
            return "class %s too rare: %d of %d" % (k, classes.get(k, 0), n)
    return None
