"""C20 Export/import round trips and recursive automata reproduce the same machine."""
from hypothesis import strategies as st

from vlib.common import fail, guard, enc, dec, words_upto
from vlib import ref_fa, ref_pda, ref_fst, ref_cfg, ref_regex, gen_fa, gen_pda, gen_cfg

ID = "C20"
RULE = ("five kinds of cases. (fa) / (pda) / (fst): a machine whose state and symbol values are JSON-representable "
        "(ints, floats, strings with blanks, commas, slashes, quotes, unicode; names such as starting_q and "
        "INITIAL_STACK_HIDDEN; never an epsilon spelling, never containing ' -> ' or ' / '), epsilon transitions, "
        "several start states, parallel edges, multi-symbol pushes and outputs, isolated states: "
        "from_networkx(x.to_networkx()) must have the same states, start/final marking, transition set (and start "
        "stack symbol). (cfg) a grammar over whitespace-free tokens, lower-case and capitalised variables and terminals "
        "(VAR:/TER: markers needed), epsilon productions: CFG.from_text(g.to_text(), start) must have the same "
        "production set and bounded language. (ebnf) 1-5 lines 'Head -> regex' rendered from ASTs, repeated heads, empty "
        "right-hand sides: RecursiveAutomaton.from_ebnf has one box per head whose automaton is "
        "EXACTLY equivalent to the reference union of that head's right-hand sides; from_regex likewise. "
        "Non-trivial: machine with an epsilon edge or parallel edges or >=2 start states / grammar needing a marker / "
        "ebnf with a repeated head or >=3 lines. Distinct = SHA-1 of canonical JSON.")
ASSUMPTIONS = ["values are JSON-representable, not epsilon spellings, without the label separators (the property's domain)",
               "terminals spelled like epsilon are outside the domain of the to_text round trip"]
BUDGET = {"quick": 500, "thorough": 6000}
WATCHDOG = 30

VALUE_POOLS = {
    "int": [0, 1, 2, 3],
    "str": ["q0", "q1", "q2", "q3"],
    "odd": ["a b", "x,y", "p/q", "é", "q\"uote", "0"],
    "starting": ["starting_q", "q", "starting_0", 0],
    "hidden": ["INITIAL_STACK_HIDDEN", "q", "starting_INITIAL_STACK_HIDDEN"],
    "float": [0.5, 1.5, 2, "2"],
    "falsy": [0, "", "0", 0.5],
}
SYMBOL_POOLS = {"ab": ["a", "b"], "odd": ["a b", "x,y", "->", "/"], "num": [1, 2.5, "1"], "uni": ["é", "ß"],
                "falsy": [0, "", "0"]}


@st.composite
def machine(draw, kind):
    pool = VALUE_POOLS[draw(st.sampled_from(list(VALUE_POOLS)))]
    n = draw(st.sampled_from([2, 3, 1, 4]))
    states = draw(st.lists(st.sampled_from(pool), min_size=min(n, len(pool)), max_size=min(n, len(pool)),
                           unique_by=lambda v: (type(v).__name__, v) if not isinstance(v, (int, float)) else ("n", float(v))))
    syms = SYMBOL_POOLS[draw(st.sampled_from(list(SYMBOL_POOLS)))]
    lab = st.sampled_from(syms + [None] + syms)
    m = draw(st.sampled_from([3, 4, 2, 5, 6, 1, 0]))
    if kind == "fa":
        tr = st.tuples(st.sampled_from(states), lab, st.sampled_from(states)).map(list)
    elif kind == "pda":
        stack = SYMBOL_POOLS[draw(st.sampled_from(["ab", "odd", "num", "falsy"]))] + ["Z"]
        push = st.lists(st.sampled_from(stack), max_size=3)
        tr = st.tuples(st.sampled_from(states), lab, st.sampled_from(stack), st.sampled_from(states), push).map(list)
    else:
        outs = SYMBOL_POOLS[draw(st.sampled_from(["ab", "odd", "num", "falsy"]))]
        tr = st.tuples(st.sampled_from(states), lab, st.sampled_from(states), st.lists(st.sampled_from(outs), max_size=3)).map(list)
    trans = draw(st.lists(tr, min_size=m, max_size=m, unique_by=repr))
    ns = draw(st.sampled_from([1, 2, 1, 0, 3]))
    nf = draw(st.sampled_from([1, 2, 1, 0]))
    starts = draw(st.lists(st.sampled_from(states), min_size=min(ns, len(states)), max_size=min(ns, len(states)), unique_by=repr))
    finals = draw(st.lists(st.sampled_from(states), min_size=min(nf, len(states)), max_size=min(nf, len(states)), unique_by=repr))
    d = {"kind": kind, "states": states, "starts": starts, "finals": finals, "trans": trans}
    if kind == "pda":
        d["starts"] = starts[:1]
        d["z0"] = draw(st.sampled_from(stack)) if draw(st.integers(0, 5)) else None
        # "mut": built with set_start_state / add_final_state / add_transition (isolated states cannot be declared)
        d["how"] = draw(st.sampled_from(["ctor", "mut"]))
    if kind == "fa":
        d["cls"] = draw(st.sampled_from(["enfa", "nfa", "dfa"]))
        if d["cls"] != "enfa":
            d["trans"] = [t for t in trans if t[1] is not None]
        if d["cls"] == "dfa":
            seen = set()
            keep = []
            for t in d["trans"]:
                k = (repr(t[0]), repr(t[1]))
                if k not in seen:
                    seen.add(k)
                    keep.append(t)
            d["trans"] = keep
            d["starts"] = starts[:1]
    return d


@st.composite
def ebnf(draw):
    heads = ["S", "A", "B"]
    syms = ["a", "b", "A", "B", "S", "c"]
    k = draw(st.sampled_from([2, 3, 1, 4, 5]))
    lines = []
    for i in range(k):
        h = "S" if i == 0 else draw(st.sampled_from(heads))
        if draw(st.integers(0, 7)) == 0:
            lines.append([h, None, ""])
            continue
        ast = draw(ref_regex.ast_strategy(syms, eps=True))
        text = ref_regex.render_text(draw, ref_regex.render_tokens(draw, ast))
        lines.append([h, ast, text])
    return {"kind": "ebnf", "lines": lines}


def strategy(tier, flags):
    cfgs = gen_cfg.cfg_desc(var_pools=["std", "long", "lower", "lower", "fresh"], term_pools=["ab", "abc", "tok", "upper", "shared", "shared_lower", "shared_lower"],
                            allow_text=False, start_always=False)
    return st.one_of(machine("fa"), machine("pda"), machine("fst"),
                     st.fixed_dictionaries({"kind": st.just("cfg"), "g": cfgs}), ebnf())


def run_case(case):
    return {"fa": run_fa, "pda": run_pda, "fst": run_fst, "cfg": run_cfg, "ebnf": run_ebnf}[case["kind"]](case)


def machine_labels(case, trans):
    labels = [case["kind"]]
    if any(t[1] is None for t in trans):
        labels.append("eps_edge")
    pairs = [(repr(t[0]), repr(t[-2] if case["kind"] != "fa" else t[2])) for t in trans]
    if len(pairs) != len(set(pairs)):
        labels.append("parallel_edges")
    if len(case["starts"]) >= 2:
        labels.append("multi_start")
    used = {repr(x) for t in trans for x in (t[0], t[2] if case["kind"] != "pda" else t[3])} | \
        {repr(s) for s in case["starts"] + case["finals"]}
    if any(repr(s) not in used for s in case["states"]):
        labels.append("isolated_state")
    nt = bool({"eps_edge", "parallel_edges", "multi_start"} & set(labels))
    return labels, nt


def run_fa(case):
    from pyformlang.finite_automaton import EpsilonNFA
    failures = []
    d = {"cls": case["cls"], "how": "ctor", "trans": case["trans"], "starts": case["starts"],
         "finals": case["finals"], "states": case["states"]}
    with guard(failures, "build"):
        A = ref_fa.build_lib(d)
    if failures:
        return {"failures": failures}
    X = ref_fa.from_lib(A)
    with guard(failures, "fa.roundtrip"):
        B = type(A).from_networkx(A.to_networkx())
        Y = ref_fa.from_lib(B)
        for what, a, b in (("states", X.states, Y.states), ("starts", X.starts, Y.starts),
                           ("finals", X.finals, Y.finals), ("transitions", set(X.trans), set(Y.trans))):
            if a != b:
                failures.append(fail("fa.roundtrip", what, {"lost": sorted(a - b, key=repr)[:3],
                                                            "added": sorted(b - a, key=repr)[:3]}))
        if not failures and ref_fa.equivalent(X, Y) is not None:
            failures.append(fail("fa.roundtrip", "language"))
    labels, nt = machine_labels(case, case["trans"])
    return {"failures": failures, "labels": labels, "nontrivial": nt}


def run_pda(case):
    from pyformlang.pda import PDA
    failures = []
    d = {"how": case.get("how", "ctor"), "start": case["starts"][0] if case["starts"] else None, "z0": case.get("z0"),
         "finals": case["finals"], "trans": case["trans"], "states": case["states"]}
    with guard(failures, "build"):
        P = ref_pda.build_lib(d)
    if failures:
        return {"failures": failures}
    X = ref_pda.from_lib(P)
    with guard(failures, "pda.roundtrip"):
        Q = PDA.from_networkx(P.to_networkx())
        Y = ref_pda.from_lib(Q)
        for what, a, b in (("states", X.states, Y.states), ("start", {X.start}, {Y.start}),
                           ("start_stack_symbol", {X.z0}, {Y.z0}), ("finals", X.finals, Y.finals),
                           ("transitions", set(X.trans), set(Y.trans))):
            if a != b:
                failures.append(fail("pda.roundtrip", what, {"lost": sorted(a - b, key=repr)[:3],
                                                             "added": sorted(b - a, key=repr)[:3]}))
    labels, nt = machine_labels(case, case["trans"])
    if any(len(t[4]) >= 2 for t in case["trans"]):
        labels.append("multi_symbol_push")
    return {"failures": failures, "labels": labels, "nontrivial": nt}


def run_fst(case):
    from pyformlang.fst import FST
    failures = []
    d = {"starts": case["starts"], "finals": case["finals"], "trans": case["trans"]}
    with guard(failures, "build"):
        F = ref_fst.build_lib(d)
    if failures:
        return {"failures": failures}
    X = ref_fst.from_lib(F)
    with guard(failures, "fst.roundtrip"):
        G = FST.from_networkx(F.to_networkx())
        Y = ref_fst.from_lib(G)
        for what, a, b in (("states", X.states, Y.states), ("starts", X.starts, Y.starts),
                           ("finals", X.finals, Y.finals), ("transitions", set(X.trans), set(Y.trans))):
            if a != b:
                failures.append(fail("fst.roundtrip", what, {"lost": sorted(a - b, key=repr)[:3],
                                                             "added": sorted(b - a, key=repr)[:3]}))
    case2 = dict(case)
    case2["states"] = sorted(X.states, key=repr)
    labels, nt = machine_labels(case2, case["trans"])
    return {"failures": failures, "labels": labels, "nontrivial": nt}


def run_cfg(case):
    from pyformlang.cfg import CFG, Variable
    failures = []
    d = case["g"]
    R = ref_cfg.from_desc(d)
    with guard(failures, "build"):
        g = ref_cfg.build_lib(d)
    if failures:
        return {"failures": failures}
    with guard(failures, "cfg.roundtrip"):
        text = g.to_text()
        g2 = CFG.from_text(text, Variable(dec(d["start"])))
        G2 = ref_cfg.lib_to_ref(g2)
        if G2.prod_set() != R.prod_set():
            failures.append(fail("cfg.roundtrip", "productions", {"text": text,
                                                                   "lost": sorted(R.prod_set() - G2.prod_set(), key=repr)[:3],
                                                                   "added": sorted(G2.prod_set() - R.prod_set(), key=repr)[:3]}))
        elif G2.language_upto(4) != R.language_upto(4):
            failures.append(fail("cfg.roundtrip", "language", text))
    labels = ["cfg", "vpool:" + d.get("vpool", "?"), "tpool:" + d.get("tpool", "?")]
    marker = any(str(t)[0].isupper() for t in R.terms) or any(not str(v)[0].isupper() for v in R.vars)
    if marker:
        labels.append("needs_marker")
    if any(not b for _h, b in R.prods):
        labels.append("epsilon_production")
    return {"failures": failures, "labels": labels, "nontrivial": marker and len(R.prods) >= 2}


def run_ebnf(case):
    from pyformlang.rsa import RecursiveAutomaton
    from pyformlang.regular_expression import Regex
    failures = []
    lines = case["lines"]
    text = "\n".join("%s -> %s" % (h, t) for h, _a, t in lines)
    by_head = {}
    for h, ast, _t in lines:
        by_head.setdefault(h, []).append(ast if ast is not None else ["eps"])
    with guard(failures, "from_ebnf"):
        rsa = RecursiveAutomaton.from_ebnf(text)
        if rsa.get_number_boxes() != len(by_head):
            failures.append(fail("from_ebnf", "number_of_boxes", {"got": rsa.get_number_boxes(), "heads": len(by_head)}))
        for h, asts in sorted(by_head.items()):
            box = rsa.get_box_by_nonterminal(h)
            if box is None:
                failures.append(fail("from_ebnf", "missing_box", h))
                continue
            exp = ref_regex.thompson(asts[0])
            for a in asts[1:]:
                exp = ref_fa.union(exp, ref_regex.thompson(a))
            M = ref_fa.from_lib(box.dfa)
            w = ref_fa.equivalent(exp, M, exp.alphabet | M.alphabet | {"zz"})
            if w is not None:
                failures.append(fail("from_ebnf", "box_language", {"head": h, "word": w, "text": text}))
        if rsa.start_nonterminal.value != "S":
            failures.append(fail("from_ebnf", "start_nonterminal", repr(rsa.start_nonterminal)))
        # one box per non-terminal: the boxes do not share their automaton (two heads may have the same body); an
        # edit of one box's automaton leaves the language of every other box as it was
        heads = sorted(by_head)
        if len(heads) >= 2 and not failures:
            boxes = {h: rsa.get_box_by_nonterminal(h) for h in heads}
            before = {h: ref_fa.from_lib(boxes[h].dfa) for h in heads}
            edited = heads[len(text) % len(heads)]
            d = boxes[edited].dfa
            for st_ in list(d.start_states):
                d.add_final_state(st_)
                d.add_transition(st_, "zz", st_)
            for h in heads:
                if h == edited:
                    continue
                M = ref_fa.from_lib(boxes[h].dfa)
                if ref_fa.equivalent(before[h], M, before[h].alphabet | M.alphabet | {"zz"}) is not None:
                    failures.append(fail("from_ebnf", "boxes_share_an_automaton", {"edited": edited, "changed": h}))
                    break
    h0, ast0, t0 = next(((h, a, t) for h, a, t in lines if a is not None), (None, None, None))
    if ast0 is not None:
        with guard(failures, "from_regex"):
            rsa = RecursiveAutomaton.from_regex(Regex(t0), "S")
            box = rsa.get_box_by_nonterminal("S")
            if rsa.get_number_boxes() != 1 or box is None:
                failures.append(fail("from_regex", "boxes"))
            else:
                M = ref_fa.from_lib(box.dfa)
                exp = ref_regex.thompson(ast0)
                if ref_fa.equivalent(exp, M, exp.alphabet | M.alphabet | {"zz"}) is not None:
                    failures.append(fail("from_regex", "box_language", t0))
    labels = ["ebnf", "lines:%d" % len(lines)]
    if any(len(v) > 1 for v in by_head.values()):
        labels.append("repeated_head")
    if any(a is None for _h, a, _t in lines):
        labels.append("empty_right_hand_side")
    return {"failures": failures, "labels": labels,
            "nontrivial": "repeated_head" in labels or len(lines) >= 3}


def health(classes, n, tier):
    need = {"fa": 0.04, "pda": 0.04, "fst": 0.04, "cfg": 0.04, "ebnf": 0.04, "eps_edge": 0.04, "parallel_edges": 0.012,
            "multi_start": 0.016, "isolated_state": 0.008, "needs_marker": 0.02, "repeated_head": 0.012,
            "multi_symbol_push": 0.012}
    for k, frac in need.items():
        if classes.get(k, 0) < frac * n:
            return "class %s too rare: %d of %d" % (k, classes.get(k, 0), n)
    return None
