"""C07 PythonRegex agrees with Python's re.fullmatch on the documented subset."""
import re
import string

from hypothesis import strategies as st

from vlib.common import fail, guard, exc_failure, lib_frame

ID = "C07"
RULE = ("case = a pattern generated from an AST over the documented subset (literals incl. blank, backslash-escaped "
        "metacharacters, '.', sets and negated sets with literals / ranges / \\d \\s \\w / escaped ] - ^ \\ / bare "
        "metacharacters, alternation, groups nested <=2, quantifiers * + ? {m} {m,n} incl. m=0 and m=n on literal / "
        "escape / set / group / dot / shortcut) together with strings: matching strings sampled from the AST, one-edit "
        "mutations of them, all strings of length <=1 and random strings of length 2-5 over the pattern's characters "
        "and a fixed set of awkward characters. Oracle = CPython re: if re.compile rejects the pattern PythonRegex must "
        "refuse it too; otherwise PythonRegex(p).accepts(s) == (re.fullmatch(p, s) is not None) for every string. "
        "Non-trivial: the pattern uses >=2 different features and both outcomes occur among its strings. "
        "Distinct = SHA-1 of canonical JSON.")
ASSUMPTIONS = ["CPython's re module is the trusted oracle",
               "outside the documented subset nothing is generated: lazy/possessive quantifiers, anchors, \\b \\A \\Z, "
               "back-references, (?...), empty branches or groups, {,n} {m,}",
               "feature classes tied to open findings are not generated (counted in excluded_by_finding)"]
BUDGET = {"quick": 250, "thorough": 3000}
FUZZ = {"procs": 8, "runs": 6000}      # atheris supplement of the thorough tier (vlib/fuzz.py)
WATCHDOG = 60

LIT = list("abcxyzdws019_AZ ")
META = list(".^$*+?{}[]\\|()")
SET_META = list(".*+?()|${}")
SHORT = ["\\d", "\\w", "\\s"]
# ranges inside one character class and across classes (their interior contains characters the library must escape)
RANGES = [("a", "c"), ("x", "z"), ("0", "5"), ("b", "y"), ("A", "C"), (",", "."), ("+", "/"), ("3", "9"),
          ("A", "z"), ("Z", "a"), ("0", "Z"), ("5", "b"), ("!", "/"), (" ", "~"), ("#", "'"), (")", "+"),
          ("<", "@"), ("Y", "b"), ("*", ","), ("{", "}"), ("$", "&"), (".", "9"), ("-", "0")]
AWKWARD = list("ab0_ A^-]$.*+?|()[\\{},")
WHITESPACE = ["\n", "\t", "\r", "\x0b", "\x0c"]      # printable too: members of \s, of negated sets, (not \n) of "."
PRINTABLE = [c for c in string.printable if c not in "\n\r\t\x0b\x0c"]

# generator feature flags that an open finding switches off
FLAGS = ["negset_escape", "set_leading_bracket", "set_shortcut_meta", "backslash_dws", "negset_leading_dash"]


# ------------------------------------------------------------------ AST generation
@st.composite
def set_node(draw, off, excluded):
    n = draw(st.sampled_from([2, 1, 3, 2]))
    items = []
    neg = draw(st.integers(0, 3)) == 0
    seen_short = False
    for i in range(n):
        k = draw(st.sampled_from(["lit", "range", "lit", "short", "meta", "esc", "range", "backslash", "bracket"]))
        if k == "bracket" and i != 0:
            k = "lit"                       # only a leading ] is a literal bracket ('[' in a set is a FutureWarning in Python)
        # ---- exclusions while a finding is open
        if k == "bracket" and "set_leading_bracket" in off:
            excluded.append("set_leading_bracket")
            k = "lit"
        if neg and "negset_escape" in off and k in ("short", "esc"):
            excluded.append("negset_escape")
            k = "lit"
        if k == "lit":
            items.append(["lit", draw(st.sampled_from(LIT))])
        elif k == "range":
            lo, hi = draw(st.sampled_from(RANGES))
            if neg and i == 0 and lo == "-" and "negset_leading_dash" in off:
                excluded.append("negset_leading_dash")
                lo, hi = "+", "/"
            if seen_short and "set_shortcut_meta" in off and hi in "(+*)?.$":
                excluded.append("set_shortcut_meta")
                lo, hi = "a", "c"
            items.append(["range", lo, hi])
        elif k == "short":
            items.append(["short", draw(st.sampled_from(SHORT))])
            seen_short = True
        elif k == "meta":
            c = draw(st.sampled_from(SET_META))
            if seen_short and c in "(+*)?.$" and "set_shortcut_meta" in off:
                excluded.append("set_shortcut_meta")
                c = "{"
            items.append(["lit", c])
        elif k == "esc":
            items.append(["esc", draw(st.sampled_from(["]", "-", "^"]))])
        elif k == "backslash":
            items.append(["esc", "\\"])
        else:
            items.append(["lit", "]"])
    return ["set", neg, items]


def atom_strategy(depth, off, excluded):
    choices = [
        st.sampled_from(LIT).map(lambda c: ["lit", c]),
        st.sampled_from(LIT).map(lambda c: ["lit", c]),
        st.sampled_from(META).map(lambda c: ["esc", c]),
        st.just(["dot"]),
        st.sampled_from(SHORT).map(lambda s: ["short", s]),
        set_node(off, excluded),
        set_node(off, excluded),
    ]
    if depth > 0:
        choices.append(alt_strategy(depth - 1, off, excluded).map(lambda a: ["group", a]))
    return st.one_of(*choices)


QUANTS = [None, None, None, ["*"], ["+"], ["?"], ["rep", 2], ["rep", 0], ["rep", 1], ["rep", 3],
          ["range", 1, 2], ["range", 0, 2], ["range", 2, 2], ["range", 0, 0], ["range", 1, 3], ["range", 0, 1]]


def seq_strategy(depth, off, excluded):
    item = st.tuples(atom_strategy(depth, off, excluded), st.sampled_from(QUANTS)).map(list)
    # one sequence in five starts with a short run of plain literals (letters next to digits: "x41", "a0F"), the
    # last of them possibly quantified
    word = st.tuples(st.lists(st.sampled_from(list("x019AFab")), min_size=2, max_size=3),
                     st.sampled_from([None, None, ["+"], ["rep", 2], ["?"]])).map(
        lambda t: [[["lit", c], None] for c in t[0][:-1]] + [[["lit", t[0][-1]], t[1]]])
    items = st.lists(item, min_size=1, max_size=3)
    return st.one_of(items, items, items, items, st.tuples(word, st.lists(item, max_size=2)).map(lambda t: t[0] + t[1])
                     ).map(lambda xs: ["seq", xs])


def alt_strategy(depth, off, excluded):
    return st.lists(seq_strategy(depth, off, excluded), min_size=1, max_size=2).map(lambda xs: ["alt", xs])


# ------------------------------------------------------------------ rendering / sampling
def render(node):
    k = node[0]
    if k == "alt":
        return "|".join(render(s) for s in node[1])
    if k == "seq":
        return "".join(render(a) + render_quant(q) for a, q in node[1])
    if k == "lit":
        return node[1]
    if k == "esc":
        return "\\" + node[1]
    if k == "dot":
        return "."
    if k == "short":
        return node[1]
    if k == "group":
        return "(" + render(node[1]) + ")"
    if k == "set":
        out = "[" + ("^" if node[1] else "")
        for it in node[2]:
            if it[0] == "lit":
                out += it[1]
            elif it[0] == "range":
                out += it[1] + "-" + it[2]
            elif it[0] == "short":
                out += it[1]
            else:
                out += "\\" + it[1]
        return out + "]"
    raise ValueError(k)


def render_quant(q):
    if q is None:
        return ""
    if q[0] in "*+?":
        return q[0]
    if q[0] == "rep":
        return "{%d}" % q[1]
    return "{%d,%d}" % (q[1], q[2])


def features(node, out):
    k = node[0]
    if k == "alt":
        if len(node[1]) > 1:
            out.add("alt")
        for s in node[1]:
            features(s, out)
    elif k == "seq":
        for a, q in node[1]:
            features(a, out)
            if q is not None:
                if q[0] in "*+?":
                    out.add(q[0])
                elif q[0] == "rep":
                    out.add("{0}" if q[1] == 0 else "{m}")
                else:
                    out.add("{0,n}" if q[1] == 0 else "{m,n}")
                    if q[1] == q[2]:
                        out.add("{m,m}")
                out.add("quant_on_" + a[0])
    elif k in ("lit",):
        pass
    elif k == "group":
        out.add("group")
        features(node[1], out)
    elif k == "set":
        out.add("negset" if node[1] else "set")
        for it in node[2]:
            if it[0] == "range":
                out.add("set_range")
            elif it[0] == "short":
                out.add("set_shortcut")
            elif it[0] == "esc":
                out.add("set_escape")
            elif it[1] in SET_META:
                out.add("set_meta_literal")
            elif it[1] == "]":
                out.add("set_leading_bracket")
    else:
        out.add(k)


def set_chars(node):
    chars = set()
    for it in node[2]:
        if it[0] in ("lit", "esc"):
            chars.add(it[1])
        elif it[0] == "range":
            chars |= {chr(c) for c in range(ord(it[1]), ord(it[2]) + 1)}
        else:
            chars |= {"\\d": set(string.digits), "\\w": set(string.ascii_letters + string.digits + "_"),
                      "\\s": set(" \t")}[it[1]]
    return chars


def sample(draw, node):
    """a string matching the AST (choices drawn by hypothesis)"""
    k = node[0]
    if k == "alt":
        return sample(draw, draw(st.sampled_from(node[1])))
    if k == "seq":
        out = ""
        for a, q in node[1]:
            if q is None:
                n = 1
            elif q[0] == "*":
                n = draw(st.sampled_from([1, 0, 2]))
            elif q[0] == "+":
                n = draw(st.sampled_from([1, 2]))
            elif q[0] == "?":
                n = draw(st.sampled_from([1, 0]))
            elif q[0] == "rep":
                n = q[1]
            else:
                n = draw(st.integers(q[1], q[2]))
            for _ in range(n):
                out += sample(draw, a)
        return out
    if k in ("lit", "esc"):
        return node[1]
    if k == "dot":
        return draw(st.sampled_from(["a", " ", ".", "*", "\\", "0", "\x0c", "\t"]))
    if k == "short":
        return draw(st.sampled_from({"\\d": ["7", "0"], "\\w": ["k", "_", "3"], "\\s": [" ", "\t", "\x0b", "\n", "\x0c", "\r"]}[node[1]]))
    if k == "group":
        return sample(draw, node[1])
    chars = set_chars(node)
    if node[1]:
        cands = [c for c in PRINTABLE if c not in chars]
        return draw(st.sampled_from(["^", "a", "]", "-", "q", "5"] + cands[:3]))
    return draw(st.sampled_from(sorted(chars)))


@st.composite
def case_strategy(draw, off):
    excluded = []
    ast = draw(alt_strategy(2, off, excluded))
    pattern = render(ast)
    if "backslash_dws" in off and pred_backslash_dws({"pattern": pattern}, None):
        excluded.append("backslash_dws")
        ast = replace_dws(ast)
        pattern = render(ast)
    alphabet = sorted(set(AWKWARD) | {c for c in pattern if c in PRINTABLE})
    # two of the five whitespace characters join the subject alphabet of each case
    alphabet += draw(st.lists(st.sampled_from(WHITESPACE), min_size=2, max_size=2, unique=True))
    strings = {""}
    for _ in range(6):
        s = sample(draw, ast)
        strings.add(s)
        if s:
            i = draw(st.integers(0, len(s) - 1))
            op = draw(st.sampled_from(["del", "dup", "sub", "ins"]))
            c = draw(st.sampled_from(alphabet))
            if op == "del":
                strings.add(s[:i] + s[i + 1:])
            elif op == "dup":
                strings.add(s[:i] + s[i] + s[i:])
            elif op == "sub":
                strings.add(s[:i] + c + s[i + 1:])
            else:
                strings.add(s[:i] + c + s[i:])
    for c in alphabet:
        strings.add(c)
    extra = draw(st.lists(st.text(alphabet=alphabet, min_size=2, max_size=5), max_size=25))
    strings.update(extra)
    feats = set()
    features(ast, feats)
    return {"pattern": pattern, "strings": sorted(strings), "features": sorted(feats), "excluded": excluded}


def strategy(tier, flags):
    return case_strategy(set(flags))


# ------------------------------------------------------------------ the check
def run_case(case):
    from pyformlang.regular_expression import PythonRegex, MisformedRegexError
    failures = []
    pattern = case["pattern"]
    labels = ["f:" + f for f in case.get("features", [])]
    excluded = {}
    for f in case.get("excluded", []):
        excluded[f] = excluded.get(f, 0) + 1
    try:
        cre = re.compile(pattern)
    except re.error:
        try:
            PythonRegex(pattern)
            failures.append(fail("invalid_pattern", "accepted", pattern))
        except Exception:
            pass
        return {"failures": failures, "labels": labels + ["python_rejects"], "nontrivial": False, "excluded": excluded}
    try:
        pr = PythonRegex(pattern)
    except MisformedRegexError as exc:
        failures.append(fail("construct", "refused_valid_pattern", {"pattern": pattern, "error": str(exc)[:80]}))
        return {"failures": failures, "labels": labels, "nontrivial": False, "excluded": excluded}
    except Exception as exc:
        if lib_frame(exc) == "harness":
            raise
        failures.append(exc_failure("construct", exc))
        return {"failures": failures, "labels": labels, "nontrivial": False, "excluded": excluded}
    outcomes = set()
    for s in case["strings"]:
        exp = cre.fullmatch(s) is not None
        outcomes.add(exp)
        try:
            got = pr.accepts(s)
        except Exception as exc:
            if lib_frame(exc) == "harness":
                raise
            failures.append(exc_failure("accepts", exc))
            break
        if got != exp:
            failures.append(fail("accepts", "wrong:%s" % got, {"pattern": pattern, "string": s}))
            break
    nt = len(case.get("features", [])) >= 2 and len(outcomes) == 2
    if nt:
        labels.append("nontrivial")
    return {"failures": failures, "labels": labels, "nontrivial": nt, "excluded": excluded}


def health(classes, n, tier):
    need = {"nontrivial": 0.12, "f:set": 0.08, "f:negset": 0.02, "f:group": 0.04, "f:alt": 0.04, "f:{0}": 0.02,
            "f:{m,n}": 0.05, "f:dot": 0.05, "f:short": 0.05, "f:esc": 0.08, "f:set_range": 0.1}
    for k, frac in need.items():
        if classes.get(k, 0) < frac * n:
            return "class %s too rare: %d of %d" % (k, classes.get(k, 0), n)
    return None


# ------------------------------------------------------------------ predicates of the open findings
def _sets(pattern):
    """the bracket expressions of a generated pattern, as (negated, content) pairs (generated patterns only
    contain well-formed sets; escapes are honoured)"""
    out = []
    i = 0
    n = len(pattern)
    while i < n:
        c = pattern[i]
        if c == "\\":
            i += 2
            continue
        if c == "[":
            j = i + 1
            neg = j < n and pattern[j] == "^"
            if neg:
                j += 1
            start = j
            if j < n and pattern[j] == "]":
                j += 1
            while j < n and pattern[j] != "]":
                j += 2 if pattern[j] == "\\" else 1
            out.append((neg, pattern[start:j]))
            i = j + 1
            continue
        i += 1
    return out


def pred_negset_escape(case, failure):
    """a negated set that contains a shortcut or an escaped ] - ^"""
    for neg, c in _sets(case["pattern"]):
        if neg and re.search(r"\\[dws\]\-\^]", c.replace("\\\\", "")):
            return True
    return False


def pred_negset_leading_dash(case, failure):
    """a negated set whose content starts with '-' (read as a range operator after '^')"""
    return any(neg and c.startswith("-") for neg, c in _sets(case["pattern"]))


def pred_set_leading_bracket(case, failure):
    return any(c.startswith("]") for _neg, c in _sets(case["pattern"]))


def pred_set_shortcut_meta(case, failure):
    """a shortcut followed, later in the same set, by one of ( + * ) ? . $"""
    for _neg, c in _sets(case["pattern"]):
        c2 = c.replace("\\\\", "")
        m = re.search(r"\\[dws]", c2)
        if m and re.search(r"[(+*)?.$]", c2[m.end():]):
            return True
    return False


def pred_backslash_dws(case, failure):
    """an escaped backslash immediately followed by d, w or s (anywhere in the pattern)"""
    p = case["pattern"]
    i = 0
    while i < len(p):
        if p[i] == "\\":
            if i + 2 < len(p) and p[i + 1] == "\\" and p[i + 2] in "dws":
                return True
            i += 2
        else:
            i += 1
    return False


def replace_dws(node):
    if node[0] == "lit" and node[1] in "dws":
        return ["lit", "a"]
    if node[0] == "range":
        return node
    out = []
    for x in node:
        out.append(replace_dws(x) if isinstance(x, list) and x and isinstance(x[0], (str, list)) else x)
    return out


PREDICATES = {"negset_escape": pred_negset_escape, "set_leading_bracket": pred_set_leading_bracket,
              "set_shortcut_meta": pred_set_shortcut_meta, "backslash_dws": pred_backslash_dws,
              "negset_leading_dash": pred_negset_leading_dash}
