"""C05 Regex text means what the documented grammar says, in every representation."""
from hypothesis import strategies as st

from vlib.common import fail, guard, words_upto
from vlib import ref_fa, ref_regex, ref_cfg

ID = "C05"
RULE = ("two kinds of cases. (wf) an AST of depth <=5 / <=8 leaves over symbols of 1-3 characters and escaped "
        "operators, rendered to text with random surface syntax (| or +, blank or '.', minimal or redundant "
        "parentheses, 0-2 blanks) plus a second AST: Regex(text) must build; its epsilon-NFA (extracted) must equal "
        "Thompson(AST) EXACTLY; accepts on all words <=3 over symbols+foreign; to_cfg() extracted with equal bounded "
        "language (n=3) and contains; union/concatenate/kleene_star and | + against the reference combination; "
        "Regex(str(r)) equivalent. (ill) a token list obtained from a well-formed one by 1-2 edits, labelled by a "
        "strict recogniser: 'ill' (unbalanced parentheses, operator without left operand) must raise "
        "MisformedRegexError, 'ok' must be accepted with the right language, 'grey' may go either way but only "
        "MisformedRegexError may escape and the representations must agree. Non-trivial: wf AST with >=2 different "
        "operators and a place where precedence (not parentheses) decides the parse, or an 'ill' token list. "
        "Distinct = SHA-1 of canonical JSON.")
ASSUMPTIONS = ["the documented grammar (class docstring of Regex) as read by vlib/ref_regex.py: star > concatenation > union",
               "two adjacent word-like tokens are always separated by a blank; escaped operators are stand-alone tokens",
               "ill-formed strings with a missing right operand, empty group or empty text are 'grey' (the repository's own tests accept \"a|\" and Regex(\"\"))"]
BUDGET = {"quick": 500, "thorough": 6000}
FUZZ = {"procs": 8, "runs": 30000}      # atheris supplement of the thorough tier (vlib/fuzz.py)
WATCHDOG = 30

FOREIGN = "zz"


@st.composite
def sym_pool(draw):
    k = draw(st.integers(1, 3))
    plain = draw(st.lists(st.sampled_from(ref_regex.SYMS_PLAIN), min_size=k, max_size=k, unique=True))
    if draw(st.integers(0, 3)) == 0:
        plain.append(draw(st.sampled_from(ref_regex.SYMS_ESCAPED)))
    return plain


@st.composite
def wf_case(draw):
    syms = draw(sym_pool())
    ast = draw(ref_regex.ast_strategy(syms))
    toks = ref_regex.render_tokens(draw, ast)
    text = ref_regex.render_text(draw, toks)
    ast2 = draw(ref_regex.ast_strategy(syms, eps=False))
    text2 = ref_regex.render_text(draw, ref_regex.render_tokens(draw, ast2))
    return {"kind": "wf", "ast": ast, "text": text, "ast2": ast2, "text2": text2}


@st.composite
def ill_case(draw):
    syms = draw(sym_pool())
    ast = draw(ref_regex.ast_strategy(syms))
    toks = [t for t in ref_regex.render_tokens(draw, ast, redundant=False)]
    for _ in range(draw(st.integers(1, 2))):
        op = draw(st.sampled_from(["delete", "insert", "insert", "empty_group"]))
        if op == "delete" and len(toks) > 1:
            del toks[draw(st.integers(0, len(toks) - 1))]
        elif op == "insert":
            toks.insert(draw(st.integers(0, len(toks))), draw(st.sampled_from(["(", ")", "|", "+", ".", "*"])))
        else:
            i = draw(st.integers(0, len(toks)))
            toks[i:i] = ["(", ")"]
    toks = [t for t in toks]
    return {"kind": "ill", "tokens": toks, "text": ref_regex.render_plain(toks)}


def strategy(tier, flags):
    return st.one_of(wf_case(), wf_case(), ill_case())


def lang_checks(failures, name, regex, R, alphabet, words):
    """regex: library Regex; R: reference NFA.  accepts is asked first (it fills the regex's cache), then the
    automaton is extracted, then accepts again"""
    with guard(failures, name + ".accepts_first"):
        for wd in words[:12]:
            got = regex.accepts(list(wd))
            if got != R.accepts(wd):
                failures.append(fail(name + ".accepts", "wrong:%s" % got, wd))
                break
    with guard(failures, name + ".accepts_iterable_forms"):
        for wd in words[12:24]:
            got = (regex.accepts(tuple(wd)), regex.accepts(x for x in wd))
            if any(g != R.accepts(wd) for g in got):
                failures.append(fail(name + ".accepts", "wrong_for_tuple_or_generator:%s" % (got,), wd))
                break
    with guard(failures, name + ".to_epsilon_nfa"):
        M = ref_fa.from_lib(regex.to_epsilon_nfa())
        w = ref_fa.equivalent(R, M, set(alphabet) | M.alphabet)
        if w is not None:
            failures.append(fail(name + ".to_epsilon_nfa", "language", {"word": w, "expected": R.accepts(w)}))
    with guard(failures, name + ".accepts"):
        for wd in words:
            got = regex.accepts(list(wd))
            if got != R.accepts(wd):
                failures.append(fail(name + ".accepts", "wrong:%s" % got, wd))
                break


def cfg_checks(failures, name, regex, R, alphabet, words):
    with guard(failures, name + ".to_cfg"):
        g = regex.to_cfg()
        G = ref_cfg.lib_to_ref(g)
        exp = R.words_upto(3, alphabet)
        got = G.language_upto(3)
        if got != exp:
            failures.append(fail(name + ".to_cfg", "language",
                                 {"missing": sorted(exp - got)[:3], "extra": sorted(got - exp)[:3]}))
        for wd in words:
            c = g.contains(list(wd))
            if c != R.accepts(wd):
                failures.append(fail(name + ".to_cfg.contains", "wrong:%s" % c, wd))
                break
        # the optional starting symbol, asked on the same object after the default one
        g2 = regex.to_cfg(starting_symbol="T0")
        if g2.start_symbol is None or g2.start_symbol.value != "T0":
            failures.append(fail(name + ".to_cfg", "starting_symbol_ignored", repr(g2.start_symbol)))
        got2 = ref_cfg.lib_to_ref(g2).language_upto(3)
        if got2 != exp:
            failures.append(fail(name + ".to_cfg", "language_with_other_start_symbol",
                                 {"missing": sorted(exp - got2)[:3], "extra": sorted(got2 - exp)[:3]}))


def run_case(case):
    from pyformlang.regular_expression import Regex, MisformedRegexError
    failures = []
    if case["kind"] == "wf":
        return run_wf(case, Regex, MisformedRegexError, failures)
    return run_ill(case, Regex, MisformedRegexError, failures)


def run_wf(case, Regex, MisformedRegexError, failures):
    ast, ast2 = case["ast"], case["ast2"]
    R = ref_regex.thompson(ast)
    R2 = ref_regex.thompson(ast2)
    syms = sorted(ref_regex.symbols_of(ast) | ref_regex.symbols_of(ast2))
    alphabet = syms[:4] + [FOREIGN]
    words = words_upto(alphabet, 3)
    # self-test of the reference: Thompson NFA vs structural recursion on the AST
    if R.words_upto(3) != ref_regex.language_upto(ast, 3):
        from vlib.common import HarnessError
        raise HarnessError("reference regex semantics disagree on %r" % (ast,))
    r = r2 = None
    with guard(failures, "parse"):
        r = Regex(case["text"])
        r2 = Regex(case["text2"])
    if r is None or r2 is None:
        return {"failures": failures}
    lang_checks(failures, "regex", r, R, alphabet, words)
    cfg_checks(failures, "regex", r, R, alphabet, words)
    # printing parses back
    with guard(failures, "str_roundtrip"):
        s = str(r)
        back = Regex(s)
        M = ref_fa.from_lib(back.to_epsilon_nfa())
        w = ref_fa.equivalent(R, M, set(alphabet) | M.alphabet)
        if w is not None:
            failures.append(fail("str_roundtrip", "language", {"printed": s, "word": w}))
    # operations
    ops = [("union", lambda: r.union(r2), ref_fa.union(R, R2)),
           ("or_operator", lambda: r | r2, ref_fa.union(R, R2)),
           ("concatenate", lambda: r.concatenate(r2), ref_fa.concat(R, R2)),
           ("add_operator", lambda: r + r2, ref_fa.concat(R, R2)),
           ("kleene_star", lambda: r.kleene_star(), ref_fa.star(R))]
    for name, f, expected in ops:
        res = None
        with guard(failures, name):
            res = f()
        if res is not None:
            lang_checks(failures, name, res, expected, alphabet, words[:40])
            if name in ("union", "concatenate", "kleene_star"):
                cfg_checks(failures, name, res, expected, alphabet, words[:20])
                with guard(failures, name + ".str_roundtrip"):
                    s = str(res)
                    M = ref_fa.from_lib(Regex(s).to_epsilon_nfa())
                    w = ref_fa.equivalent(expected, M, set(alphabet) | M.alphabet)
                    if w is not None:
                        failures.append(fail(name + ".str_roundtrip", "language", {"printed": s, "word": w}))
    # the operands still mean the same after having been combined and evaluated
    lang_checks(failures, "regex_after_ops", r, R, alphabet, words[:40])
    lang_checks(failures, "regex2_after_ops", r2, R2, alphabet, words[:40])
    ops_used = ref_regex.operators_of(ast)
    labels = ["wf", "depth:%d" % min(ref_regex.depth(ast), 6)] + ["op:" + o for o in sorted(ops_used)]
    if any(s in ref_regex.SPECIAL1 for s in syms):
        labels.append("escaped_operator_symbol")
    if "(" in case["text"]:
        labels.append("has_parentheses")
    if "epsilon" in case["text"] or "$" in case["text"].replace("\\$", ""):
        labels.append("has_epsilon")
    prec = ref_regex.precedence_decides(ast)
    if prec:
        labels.append("precedence_decides")
    return {"failures": failures, "labels": labels, "nontrivial": len(ops_used) >= 2 and prec}


def run_ill(case, Regex, MisformedRegexError, failures):
    toks = case["tokens"]
    label = ref_regex.label_tokens(toks)
    text = case["text"]
    r = None
    refused = False
    try:
        r = Regex(text)
    except MisformedRegexError:
        refused = True
    except Exception as exc:  # any other failure is a violation whatever the label
        from vlib.common import exc_failure, lib_frame
        if lib_frame(exc) == "harness":
            raise
        failures.append(exc_failure("ill.parse", exc))
        return {"failures": failures, "labels": ["ill_side", "label:" + label], "nontrivial": label == "ill"}
    if label == "ill" and not refused:
        failures.append(fail("ill.parse", "accepted_ill_formed", text))
    if label == "ok":
        if refused:
            failures.append(fail("ill.parse", "refused_well_formed", text))
        else:
            ast = ref_regex.parse_tokens([t for t in toks if t != "J"])
            R = ref_regex.thompson(ast)
            alphabet = sorted(ref_regex.symbols_of(ast))[:4] + [FOREIGN]
            lang_checks(failures, "ok_after_edit", r, R, alphabet, words_upto(alphabet, 3))
    if label == "grey" and r is not None:
        # free to accept, but the representations must agree with each other and nothing else may escape
        with guard(failures, "grey.consistency", allowed=(MisformedRegexError,)):
            M = ref_fa.from_lib(r.to_epsilon_nfa())
            alphabet = sorted(M.alphabet, key=repr)[:4]
            for wd in words_upto(alphabet, 2):
                if r.accepts(list(wd)) != M.accepts(wd):
                    failures.append(fail("grey.consistency", "accepts_vs_enfa", wd))
                    break
            g = r.to_cfg()
            G = ref_cfg.lib_to_ref(g)
            if G.language_upto(2) != M.words_upto(2, alphabet):
                failures.append(fail("grey.consistency", "cfg_vs_enfa", text))
    labels = ["ill_side", "label:" + label, "refused:%s" % refused]
    return {"failures": failures, "labels": labels, "nontrivial": label == "ill"}


def health(classes, n, tier):
    need = {"precedence_decides": 0.06, "label:ill": 0.02, "label:ok": 0.008, "label:grey": 0.004,
            "escaped_operator_symbol": 0.02, "has_epsilon": 0.02, "op:star": 0.06}
    for k, frac in need.items():
        if classes.get(k, 0) < frac * n:
            return "class %s too rare: %d of %d" % (k, classes.get(k, 0), n)
    return None
