"""C15 Every parse tree or derivation handed out is a real derivation of the given word."""
from hypothesis import strategies as st

from vlib.common import fail, guard, words_upto, exc_failure, lib_frame
from vlib import ref_cfg, ref_fs, gen_cfg, trees

ID = "C15"
RULE = ("two kinds of cases. (cfg) a CFG description (ambiguous grammars frequent, epsilon productions, unit "
        "productions) and all words <=3 over terminals+foreign symbol plus members of length 4: get_cnf_parse_tree "
        "(non-empty words), LLOneParser.get_llone_parse_tree (when the reference says LL(1)), "
        "RecursiveDecentParser.get_parse_tree left and right (only grammars without epsilon productions and unit "
        "cycles that are not left- resp. right-recursive, where the parser terminates). (fcfg) a feature-grammar "
        "description rendered to text (feature-free or featured, epsilon productions, left recursion): "
        "FCFG.get_parse_tree. Every returned tree is validated: root = start symbol, every inner node with its "
        "children is a production of the grammar parsed (of the extracted to_normal_form() for the CNF tree), a "
        "childless variable needs an epsilon production, leaves spell the word, no cycle. Both derivations of every "
        "tree are validated step by step. A tree is returned iff the word is a member (reference), otherwise the "
        "documented exception. Non-trivial: a member of length >=2 whose tree has an inner node with >=2 children. "
        "Distinct = SHA-1 of canonical JSON.")
ASSUMPTIONS = ["validity predicate, not a single expected tree (ambiguous grammars have several)",
               "membership oracle = reference bounded language (vlib/ref_cfg.py), ground instantiation for feature grammars"]
BUDGET = {"quick": 300, "thorough": 4000}
WATCHDOG = 15


def strategy(tier, flags):
    cfgs = gen_cfg.cfg_desc(var_pools=["std", "std", "long", "fresh", "int_str"], term_pools=["ab", "ab", "abc", "shared", "int_str"],
                            max_prods=7, max_body=3)
    from props.c14 import ll1_like
    return st.one_of(
        st.fixed_dictionaries({"kind": st.just("cfg"), "g": cfgs}),
        st.fixed_dictionaries({"kind": st.just("cfg"), "g": ll1_like().filter(lambda d: len(d["prods"]) > 0)}),
        st.fixed_dictionaries({"kind": st.just("fcfg"), "f": ref_fs.fcfg_desc()}),
    )


WORD_FORMS = (list, lambda w: iter(list(w)), tuple)


def has_unit_cycle(R):
    unit = {}
    for h, b in R.prods:
        if len(b) == 1 and b[0][0] == 'V':
            unit.setdefault(h, set()).add(b[0][1])
    for a in unit:
        seen = set()
        todo = list(unit[a])
        while todo:
            x = todo.pop()
            if x == a:
                return True
            if x not in seen:
                seen.add(x)
                todo.extend(unit.get(x, ()))
    return False


def edge_recursive(R, pos):
    """is some variable reachable from itself through the first (pos=0) / last (pos=-1) symbols of bodies?
    (grammars without epsilon productions: this is left / right recursion)"""
    edges = {}
    for h, b in R.prods:
        if b and b[pos][0] == 'V':
            edges.setdefault(h, set()).add(b[pos][1])
    for a in edges:
        seen = set()
        todo = list(edges[a])
        while todo:
            x = todo.pop()
            if x == a:
                return True
            if x not in seen:
                seen.add(x)
                todo.extend(edges.get(x, ()))
    return False


def check_tree(failures, stats, name, tree, prods, start, w):
    pb = trees.validate_tree(tree, prods, start, w)
    if pb:
        failures.append(fail(name, "invalid_tree", {"word": w, "problems": pb[:3]}))
        return
    if len(w) >= 2 and trees.count_inner_with_2_children(tree):
        stats["good_trees"] += 1
    for sub, leftmost, f in (("leftmost_derivation", True, tree.get_leftmost_derivation),
                             ("rightmost_derivation", False, tree.get_rightmost_derivation)):
        try:
            steps = f()
        except Exception as exc:
            if lib_frame(exc) == "harness":
                raise
            failures.append(exc_failure(name + "." + sub, exc))
            continue
        pb = trees.validate_derivation(steps, prods, start, w, leftmost)
        if pb:
            failures.append(fail(name + "." + sub, "invalid_derivation", {"word": w, "problems": pb[:2]}))


def run_parser(failures, stats, name, call, refusal, words, lang, prods, start, allow_recursion_error=False,
               skip_empty=False):
    for w in words:
        if skip_empty and not w:
            continue
        if any(f["sub"].startswith(name) for f in failures):
            break
        try:
            # the word goes in as a list, a tuple or a one-shot iterator in turn (all are "iterables of terminals")
            # only where the documentation says "iterable" (the LL(1) and recursive-descent parsers document a list)
            form = WORD_FORMS[len(w) % 3] if name in ("cnf_tree", "fcfg_tree") else list
            tree = call(form(w))
        except refusal:
            if w in lang:
                failures.append(fail(name, "member_refused", w))
            continue
        except RecursionError:
            if allow_recursion_error:
                stats["recursion_error"] += 1
                continue
            failures.append(fail(name, "exception:RecursionError", w))
            continue
        except Exception as exc:
            if lib_frame(exc) == "harness":
                raise
            failures.append(exc_failure(name, exc))
            continue
        if w not in lang:
            failures.append(fail(name, "tree_for_non_member", w))
            continue
        check_tree(failures, stats, name, tree, prods, start, w)


def run_case(case):
    import collections
    failures = []
    stats = collections.Counter()
    labels = [case["kind"]]
    if case["kind"] == "cfg":
        from pyformlang.cfg.llone_parser import LLOneParser
        from pyformlang.cfg.recursive_decent_parser import RecursiveDecentParser
        from pyformlang.cfg.cfg import NotParsableException
        from pyformlang.cfg.cyk_table import DerivationDoesNotExist
        d = case["g"]
        R = ref_cfg.from_desc(d)
        with guard(failures, "build"):
            g = ref_cfg.build_lib(d)
        if failures:
            return {"failures": failures}
        lang = R.language_upto(4)
        terms = sorted(R.terms, key=repr)
        words = words_upto(terms[:2] + [gen_cfg.FOREIGN], 3) + sorted((w for w in lang if len(w) == 4), key=repr)[:10]
        # --- CNF tree: productions of the extracted normal form
        with guard(failures, "cnf.to_normal_form"):
            NF = ref_cfg.lib_to_ref(g.to_normal_form())
            run_parser(failures, stats, "cnf_tree", g.get_cnf_parse_tree, DerivationDoesNotExist, words,
                       lang, NF.prod_set(), NF.start, skip_empty=True)
        # --- LL(1) tree
        useful = R.useful_prods()
        if useful and len(useful) == len(R.prods) and R.is_ll1():
            labels.append("ll1")
            parser = LLOneParser(g)
            run_parser(failures, stats, "llone_tree", parser.get_llone_parse_tree, NotParsableException, words,
                       lang, R.prod_set(), R.start)
        # --- recursive descent
        if not any(not b for _h, b in R.prods) and not has_unit_cycle(R):
            # the parser expands the leftmost (rightmost) variable and prunes on the terminal prefix (suffix):
            # it terminates exactly when the grammar is not left (right) recursive; otherwise the documented
            # outcome is a RecursionError that may take astronomically long to arrive, so it is not run
            rd = RecursiveDecentParser(g)
            for left in (True, False):
                if edge_recursive(R, 0 if left else -1):
                    labels.append("rd_skipped_left_recursive" if left else "rd_skipped_right_recursive")
                    continue
                labels.append("recursive_descent_domain")
                run_parser(failures, stats, "rd_tree_left" if left else "rd_tree_right",
                           lambda w, left=left: rd.get_parse_tree(w, left), NotParsableException,
                           words[:40], lang, R.prod_set(), R.start)
        if any(not b for _h, b in R.prods):
            labels.append("epsilon_production")
        if len(lang) >= 2:
            labels.append("several_members")
    else:
        from pyformlang.fcfg import FCFG
        from pyformlang.cfg.cfg import NotParsableException
        d = case["f"]
        G = ref_fs.ground(d)
        text = ref_fs.fcfg_text(d)
        with guard(failures, "build"):
            g = FCFG.from_text(text)
        if failures:
            return {"failures": failures}
        lang = G.language_upto(4)
        words = words_upto(["a", "b"], 3) + sorted((w for w in lang if len(w) == 4), key=repr)[:8] + [("a", "zz")]
        run_parser(failures, stats, "fcfg_tree", g.get_parse_tree, NotParsableException, words, lang,
                   ref_fs.skeleton(d), d["start"])
        if any(hf or any(b[0] == "V" and b[2] for b in body) for _h, hf, body in d["prods"]):
            labels.append("featured")
        if any(not body for _h, _hf, body in d["prods"]):
            labels.append("epsilon_production")
    if stats["recursion_error"]:
        labels.append("rd_recursion_error")
    if stats["good_trees"]:
        labels.append("validated_tree_with_branching")
    return {"failures": failures, "labels": labels, "nontrivial": stats["good_trees"] > 0}


def health(classes, n, tier):
    need = {"cfg": 0.16, "fcfg": 0.06, "ll1": 0.012, "recursive_descent_domain": 0.032, "featured": 0.032,
            "validated_tree_with_branching": 0.1, "epsilon_production": 0.06}
    for k, frac in need.items():
        if classes.get(k, 0) < frac * n:
            return "class %s too rare: %d of %d" % (k, classes.get(k, 0), n)
    return None
