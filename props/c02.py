"""C02 Automaton equivalence is decided exactly; minimisation is reduced and canonical."""
from hypothesis import strategies as st

from vlib.common import fail, guard
from vlib import ref_fa, gen_fa
from vlib.ref_fa import EPS

ID = "C02"
RULE = ("case = ordered pair (A, B) of finite-automaton descriptions, any class mix, alphabets equal / overlapping / "
        "disjoint; in 1/3 of the cases B is a language-preserving edit of A (unreachable state, explicit sink, renamed "
        "states, reference determinisation, split states), in 1/3 a minimal language-changing edit (flip a final flag, "
        "redirect/drop/add an edge). truth = exact product equivalence of the reference NFAs. Checked: "
        "A.is_equivalent_to(B), B.is_equivalent_to(A), A == B equal truth; A.minimize() and B.minimize(): same "
        "language, every state reachable, states pairwise distinguishable, number of states == size of the reference "
        "minimal trim DFA (one non-final state for the empty language), and isomorphic results when truth. "
        "Non-trivial: both languages non-empty and (equal with different structure, or first difference at a word of "
        "length >= 1). Distinct = SHA-1 of canonical JSON.")
ASSUMPTIONS = ["reference equivalence = BFS over pairs of epsilon-closed subsets (exact)",
               "canonical size = Moore refinement on the trim determinised reference automaton",
               "sizes bounded: <=5 states per operand (before edits)"]
BUDGET = {"quick": 700, "thorough": 6000}
WATCHDOG = 20
EXHAUSTIVE_SCOPE = {
    "quick": "all ordered pairs among the 128 single-start 2-state NFAs over {a} (16384 pairs)",
    "thorough": "all ordered pairs among the 256 2-state NFAs over {a} with any start/final marking (65536 pairs) "
                "and every 2-state epsilon-NFA over {a,eps} (4096) paired with its reference determinisation",
}


@st.composite
def pair(draw):
    a = draw(gen_fa.fa_desc())
    mode = draw(st.sampled_from(["independent", "preserving", "changing", "same"]))
    if mode == "independent":
        b = draw(gen_fa.fa_desc(sym_pools=[a["sympool"]] if draw(st.booleans()) else None))
    elif mode == "preserving":
        b = gen_fa.derive_preserving(draw, a)
    elif mode == "changing":
        b = gen_fa.derive_changing(draw, a)
    else:
        b = dict(a)
        b["cls"] = draw(st.sampled_from(["enfa", "nfa"])) if a["cls"] != "enfa" else "enfa"
    return {"a": a, "b": b, "mode": mode}


def strategy(tier, flags):
    return pair()


def exhaustive(tier, shard, nshards):
    from vlib.scope import enfa_scope
    single = tier == "quick"
    autos = [d for _i, d in enfa_scope(2, single, labels=("a",))]
    idx = 0
    for x in autos:
        for y in autos:
            if idx % nshards == shard:
                yield {"a": x, "b": y, "mode": "scope"}
            idx += 1
    if tier == "thorough":
        from vlib.common import enc
        for i, d in enfa_scope(2, False):
            if i % nshards == shard:
                D = ref_fa.from_desc(d).determinise()
                e = {"cls": "dfa", "how": "mut", "order": "tsf",
                     "trans": [[enc(p), enc(a), enc(q)] for p, a, q in D.trans],
                     "starts": [enc(s) for s in D.starts], "finals": [enc(s) for s in D.finals]}
                yield {"a": d, "b": e, "mode": "scope-det"}


def check_minimal(failures, name, R, lib_min):
    """R: reference NFA of the original; lib_min: library result of minimize()"""
    M = ref_fa.from_lib(lib_min)
    w = ref_fa.equivalent(R, M, R.alphabet | M.alphabet)
    if w is not None:
        failures.append(fail(name, "language", {"word": w}))
        return M
    if len(M.starts) > 1 or any(a is EPS or len(T) > 1 for (p, a), T in M.delta.items() if T):
        failures.append(fail(name, "not_deterministic"))
        return M
    unreachable = M.states - M.reachable()
    if unreachable:
        failures.append(fail(name, "unreachable_state", sorted(unreachable, key=repr)))
    pq = ref_fa.pairwise_distinguishable(M)
    if pq is not None:
        failures.append(fail(name, "indistinguishable_states", pq))
    # reachable + pairwise distinguishable already means minimal for the result's own completeness convention;
    # the property does not fix that convention (trim or with one sink), so no size / reference shape is demanded
    return M


def run_case(case):
    failures = []
    RA = ref_fa.from_desc(case["a"])
    RB = ref_fa.from_desc(case["b"])
    with guard(failures, "build"):
        A = ref_fa.build_lib(case["a"])
        B = ref_fa.build_lib(case["b"])
    if failures:
        return {"failures": failures}
    w = ref_fa.equivalent(RA, RB)
    truth = w is None
    for name, f in (("is_equivalent_to", lambda: A.is_equivalent_to(B)),
                    ("is_equivalent_to_swapped", lambda: B.is_equivalent_to(A)),
                    ("eq_operator", lambda: A == B)):
        with guard(failures, name):
            got = f()
            if got is not truth:
                failures.append(fail(name, "wrong:%s" % got, {"distinguishing_word": w}))
    MA = MB = None
    with guard(failures, "minimize"):
        MA = check_minimal(failures, "minimize", RA, A.minimize())
    with guard(failures, "minimize"):
        MB = check_minimal(failures, "minimize", RB, B.minimize())
    if truth and MA is not None and MB is not None and not failures:
        if not ref_fa.isomorphic_dfa(MA, MB):
            failures.append(fail("minimize_pair", "not_isomorphic"))
    # ---- classification
    ea, eb = RA.is_empty(), RB.is_empty()
    labels = ["mode:" + case.get("mode", "?"), "truth:%s" % truth,
              "cls:%s-%s" % (case["a"]["cls"], case["b"]["cls"])]
    if "derived" in case["b"]:
        labels.append("derived:" + case["b"]["derived"])
    if RA.alphabet != RB.alphabet:
        labels.append("different_alphabets")
    dead_a = bool(RA.reachable() - RA.coreachable())
    dead_b = bool(RB.reachable() - RB.coreachable())
    if dead_a != dead_b:
        labels.append("dead_state_one_side")
    if ea and eb and case["a"] != case["b"]:
        labels.append("both_empty_different_shape")
    nontrivial = (not ea and not eb) and ((truth and case["a"] != case["b"]) or (not truth and len(w) >= 1))
    return {"failures": failures, "labels": labels, "nontrivial": nontrivial}


def health(classes, n, tier):
    t = classes.get("truth:True", 0)
    f = classes.get("truth:False", 0)
    if t < 0.07 * n or f < 0.07 * n:
        return "verdict balance: %d equal / %d different of %d" % (t, f, n)
    if classes.get("dead_state_one_side", 0) < 0.012 * n:
        return "dead_state_one_side too rare"
    return None
