"""C17 Indexed-grammar emptiness is exact and independent of rule order."""
from hypothesis import strategies as st

from vlib.common import fail, guard, HarnessError
from vlib import ref_ig, ref_fa, gen_fa

ID = "C17"
RULE = ("case = list of reduced-form rules (end / production / consumption / duplication) over <=4 non-terminals "
        "(S always the start; the library's reserved product names S and T included in some cases), <=2 index symbols, "
        "<=8 rules (one non-small case in three is built around push / duplicate / both copies consume the pushed index, "
        "up to 5 non-terminals; one small case in four holds both orders of one duplication), possibly with a duplicated rule, a permutation of the list, and a small regular operand (regex a, b, "
        "$, 'a b', 'b a' or an automaton with <=2 states). is_empty() must equal the reference function-table fixpoint for "
        "optim 0..8 on the given order and on the permutation, on a second call of the same object and "
        "after remove_useless_rules(); for grammars with <=4 rules intersection(r).is_empty() and (g & r) must equal "
        "the emptiness of the reference product grammar. The reference is cross-checked in every case by a bounded "
        "brute-force derivation search (a derivation found while the table says empty = harness error). Non-trivial: "
        "the grammar uses at least three of the four rule kinds and has a consumption rule. Distinct = SHA-1 of "
        "canonical JSON.")
ASSUMPTIONS = ["reference emptiness = function-table fixpoint (vlib/ref_ig.py), not Aho's marking",
               "optim 8 shuffles with the global random module: only the verdict is compared",
               "the library's marking is exponential: about 0.3% of the 4-rule x 2-state products do not answer within the "
               "20 s watchdog even on the unchanged tree; they are counted as inconclusive, never as violations",
               "intersection clause limited to <=4 rules and operands with <=3 states (the library's product is cubic in "
               "the number of states and its marking exponential)"]
BUDGET = {"quick": 250, "thorough": 3000}
WATCHDOG = 20
MAX_INCONCLUSIVE = {"quick": 4, "thorough": 60}

REGEXES = ["a", "b", "$", "a b", "b a"]


@st.composite
def case_strategy(draw):
    reserved = draw(st.integers(0, 4)) == 0
    mirrored = False
    small = draw(st.integers(0, 3)) == 0
    if not small and draw(st.integers(0, 2)) == 0:
        rules = draw(ref_ig.ig_rules_skeleton(reserved=reserved))
    elif small and draw(st.integers(0, 3)) == 0:
        # both orders of one duplication plus two end rules: the word order, which only the regular operand sees
        x = draw(st.sampled_from(["S", "S", "S", "A"]))
        y, z = draw(st.sampled_from([("A", "B"), ("A", "B"), ("B", "A"), ("S", "A"), ("A", "A")]))
        ends = [["end", y, draw(st.sampled_from(["a", "b"]))], ["end", z, draw(st.sampled_from(["b", "a"]))]]
        rules = list(draw(st.permutations([["dup", x, y, z], ["dup", x, z, y]] + ends)))
        rules = [r for i, r in enumerate(rules) if r not in rules[:i]]
        mirrored = True
    else:
        rules = draw(ref_ig.ig_rules(max_rules=4 if small else 8, max_nt=3 if small else 4, reserved=reserved))
    perm = draw(st.permutations(list(range(len(rules)))))
    dup = draw(st.integers(0, len(rules))) if draw(st.integers(0, 3)) == 0 else None
    if mirrored and draw(st.booleans()):
        reg = {"kind": "regex", "text": draw(st.sampled_from(["a b", "b a"]))}
    elif draw(st.booleans()):
        reg = {"kind": "regex", "text": draw(st.sampled_from(REGEXES))}
    else:
        reg = {"kind": "fa", "fa": draw(gen_fa.fa_desc(max_states=2, max_trans=4, state_pools=["int", "str"],
                                                       force_syms=["a", "b"], allow_extra=False))}
    return {"rules": rules, "perm": list(perm), "dup": dup, "reg": reg, "with_intersection": small}


def strategy(tier, flags):
    return case_strategy()


def run_case(case):
    failures = []
    rules = [list(r) for r in case["rules"]]
    R = ref_ig.RefIG(rules)
    truth = R.is_empty()
    if truth and R.brute_nonempty():
        raise HarnessError("reference table says empty but a derivation exists: %r" % (rules,))
    orders = [("given", rules), ("permuted", [rules[i] for i in case["perm"]])]
    if case.get("dup") is not None and rules:
        k = case["dup"] % len(rules)
        orders.append(("with_duplicate", rules + [rules[k]]))
    for oname, rl in orders:
        for optim in range(9):
            sub = "is_empty"
            with guard(failures, sub):
                g = ref_ig.build_lib(rl, optim)
                got = g.is_empty()
                if got is not truth:
                    failures.append(fail(sub, "wrong:%s" % got, {"order": oname, "optim": optim}))
                    break
                again = g.is_empty()
                if again is not truth:
                    failures.append(fail("is_empty_second_call", "wrong:%s" % again, {"order": oname, "optim": optim}))
                    break
            if failures:
                break
    with guard(failures, "remove_useless_rules"):
        for optim in (7, 0):
            g = ref_ig.build_lib(rules, optim)
            got = g.remove_useless_rules().is_empty()
            if got is not truth:
                failures.append(fail("remove_useless_rules", "wrong:%s" % got, {"optim": optim}))
                break
    labels = ["truth_empty" if truth else "truth_nonempty"]
    if case.get("with_intersection") and len(rules) <= 4:
        reg = case["reg"]
        if reg["kind"] == "regex":
            from pyformlang.regular_expression import Regex
            mk = lambda: Regex(reg["text"])
            D = ref_fa.from_lib(Regex(reg["text"]).to_epsilon_nfa())
        else:
            mk = lambda: ref_fa.build_lib(reg["fa"])
            D = ref_fa.from_desc(reg["fa"])
        P = ref_ig.RefIG(ref_ig.product_rules(rules, D), start="START")
        ptruth = P.is_empty()
        if ptruth:
            for w in R.words():
                if D.accepts(w):
                    raise HarnessError("product table says empty but %r is derivable and accepted: %r" % (w, case))
        for name, f in (("intersection", lambda: ref_ig.build_lib(rules).intersection(mk())),
                        ("and_operator", lambda: ref_ig.build_lib(rules) & mk())):
            with guard(failures, name):
                got = f().is_empty()
                if got is not ptruth:
                    failures.append(fail(name, "wrong:%s" % got, {"regular": reg}))
        labels.append("intersection_checked")
        labels.append("product_empty" if ptruth else "product_nonempty")
    kinds = {r[0] for r in rules}
    labels += ["kinds:%d" % len(kinds)]
    if any(r[0] == "cons" for r in rules):
        labels.append("has_consumption")
    cons = [(r[1], r[2]) for r in rules if r[0] == "cons"]
    if len(cons) != len(set(cons)):
        labels.append("several_consumptions_same_index_and_variable")
    pushed = {(r[3], r[2]) for r in rules if r[0] == "prod"}
    for d in (r for r in rules if r[0] == "dup"):
        for i in {i for (i, y) in pushed if y == d[1]}:
            if any(c[0] == "cons" and c[1] == i and c[2] == d[2] for c in rules) and \
                    any(c[0] == "cons" and c[1] == i and c[2] == d[3] for c in rules):
                labels.append("push_duplicate_consume_both")
                break
        else:
            continue
        break
    dups = [r for r in rules if r[0] == "dup"]
    if any(r[2] != r[3] and ["dup", r[1], r[3], r[2]] in dups for r in dups):
        labels.append("mirrored_duplications")
    if "T" in {x for r in rules for x in r[1:]}:
        labels.append("reserved_names")
    return {"failures": failures, "labels": labels, "nontrivial": len(kinds) >= 3 and "cons" in kinds}


def health(classes, n, tier):
    need = {"truth_empty": 0.08, "truth_nonempty": 0.08, "intersection_checked": 0.032, "product_nonempty": 0.008,
            "has_consumption": 0.12, "several_consumptions_same_index_and_variable": 0.008, "kinds:4": 0.04}
    for k, frac in need.items():
        if classes.get(k, 0) < frac * n:
            return "class %s too rare: %d of %d" % (k, classes.get(k, 0), n)
    return None
