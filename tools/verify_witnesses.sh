#!/bin/sh
# every witness of a fixed finding must FAIL on the parent of its fix commit and PASS on /repo HEAD;
# every witness of an open finding must still fail (as a known finding: replay exit 0 with FAILURE lines)
# usage: tools/verify_witnesses.sh [PROP ...]
cd "$(dirname "$0")/.." || exit 2
props="$*"; [ -z "$props" ] && props=$(ls regress)
rc=0
for p in $props; do
  for f in regress/$p/F*.json; do
    [ -e "$f" ] || continue
    id=$(basename "$f" .json)
    set -- $(python3 -c "import json,sys; e=[e for e in json.load(open('known_findings.json')) if e['id']=='$id'][0]; print(e['status'], e.get('commit','-'), 'hangs' if e.get('hangs') else 'nohang')")
    st=$1; commit=$2; hangs=$3
    ./check "$p" --replay "$f" >/tmp/vw_head_$$ 2>&1; b=$?
    if [ "$st" = fixed ]; then
      wt=/tmp/pfl_wt_vw_$$
      git -C /repo worktree add -q --detach "$wt" "$commit^" || exit 2
      VERIF_REPO="$wt" ./check "$p" --replay "$f" >/tmp/vw_pre_$$ 2>&1; a=$?
      if [ "$hangs" = hangs ] && grep -q INCONCLUSIVE /tmp/vw_pre_$$; then a=1; fi
      git -C /repo worktree remove --force "$wt"
      status=ok; [ "$a" = 1 ] && [ "$b" = 0 ] || { status=BAD; rc=1; }
      echo "$f before_fix($commit^)=$a head=$b status=$st $status"
    else
      status=ok; grep -q "known finding $id" /tmp/vw_head_$$ && [ "$b" = 0 ] || { status=BAD; rc=1; }
      echo "$f head=$b status=$st $status"
    fi
  done
done
rm -f /tmp/vw_head_$$
exit $rc
