#!/usr/bin/env python3
"""Single source for known_findings.json and the witness files regress/<ID>/<Fxx>.json.
Run at development time only (never by a check):  python3 tools/findings_src.py
"""
import json, os
ROOT = os.path.dirname(os.path.dirname(os.path.abspath(__file__)))


def fa(cls, trans, starts, finals, **kw):
    d = {"cls": cls, "how": "mut", "order": "tsf", "trans": trans, "starts": starts, "finals": finals}
    d.update(kw)
    return d


F = []


def fixed(fid, prop, commit, what, case, hashseed="1"):
    F.append({"id": fid, "property": prop, "status": "fixed", "commit": commit, "what": what,
              "line": "fixed: property=%s %s %s" % (prop, commit, what),
              "witness": "regress/%s/%s.json" % (prop, fid), "_case": case, "_hashseed": hashseed})


def opened(fid, prop, what, case, sub, kind, predicate, excludes, hashseed="1", hangs=False):
    F.append({"id": fid, "property": prop, "status": "open", "what": what, "sub": sub, "kind": kind,
              "predicate": predicate, "excludes": excludes, "hangs": hangs,
              "witness": "regress/%s/%s.json" % (prop, fid), "_case": case, "_hashseed": hashseed})


# ------------------------------------------------------------------ C01
fixed("F01a", "C01", "6485b0c",
      "to_deterministic/minimize merged different subsets that print alike (states 0 and \"0\"): NFA 0-a->\"0\", start 0, final 0 accepted 'a'",
      {"fa": fa("nfa", [[0, "a", "0"]], [0], [0], pool="mixed", sympool="abc")})
# ------------------------------------------------------------------ C02
fixed("F02a", "C02", "87f8b6b",
      "minimize kept the block of the implicit trash state: 0-a->1* and 0-a->1*-a->2-a->2 were reported not equivalent",
      {"a": fa("dfa", [[0, "a", 1]], [0], [1]),
       "b": fa("dfa", [[0, "a", 1], [1, "a", 2], [2, "a", 2]], [0], [1]), "mode": "witness"})
fixed("F02b", "C02", "3e7356e",
      "is_equivalent_to raised TypeError when a state has symbols of different types (1 and \"a\")",
      {"a": fa("dfa", [[0, 1, 1], [0, "a", 2]], [0], [1, 2]),
       "b": fa("dfa", [[0, 1, 1], [0, "a", 1]], [0], [1]), "mode": "witness"})
# ------------------------------------------------------------------ C03
fixed("F03a", "C03", "a942b86",
      "get_complement flipped finals without determinising: complement of 0-a->1*, 0-a->2 accepted 'a'",
      {"a": fa("nfa", [[0, "a", 1], [0, "a", 2]], [0], [1], pool="int"),
       "b": fa("nfa", [[0, "a", 1]], [0], [1], pool="int"), "plain": True})
fixed("F03c", "C03", "6485b0c",
      "get_intersection gave the pairs (\"0\",\"1; 0\") and (\"0; 1\",\"0\") the same name",
      {"a": fa("nfa", [["0", "a", "0; 1"], ["0", "b", "0"]], ["0"], ["0; 1"], pool="pairish"),
       "b": fa("nfa", [["1; 0", "a", "0"], ["1; 0", "b", "1; 0"], ["0", "b", "0"]], ["1; 0"], ["1; 0"], pool="pairish"),
       "plain": True})
fixed("F03d", "C03", "6804330",
      "complement of an automaton without start state was empty instead of everything",
      {"a": fa("dfa", [[0, "a", 0]], [], [0], pool="int"),
       "b": fa("enfa", [[0, "a", 0]], [0], [0], pool="int"), "plain": True})
fixed("F03e", "C03", "5280f6c",
      "complement merged an operand state named TrashNode with its own trash state (DuplicateTransitionError / wrong language)",
      {"a": fa("enfa", [["TRASH", "a", "TRASH"]], ["TRASH"], ["TRASH"], pool="reserved"),
       "b": fa("dfa", [["TrashNode", "a", "TRASH"]], ["TrashNode"], ["TRASH"], pool="reserved"), "plain": True})
# ------------------------------------------------------------------ C04
fixed("F04a", "C04", "b3a2e67",
      "get_accepted_words dropped words whose run passes through a final state: DFA 0-a->1*-b->2-c->1 yielded only 'a'",
      {"bounds": [5, 3], "fa": fa("dfa", [[0, "a", 1], [1, "b", 2], [2, "c", 1]], [0], [1])})
# ------------------------------------------------------------------ C05
fixed("F05a", "C05", "5634365",
      "Regex(\"( )\") raised IndexError instead of MisformedRegexError",
      {"kind": "ill", "tokens": ["(", ")"], "text": "( )"})
fixed("F05b", "C05", "6779d93",
      "str(Regex(\"\\\\*\")) printed the escaped operator bare and did not parse back",
      {"kind": "wf", "ast": ["sym", "*"], "text": "\\*", "ast2": ["sym", "a"], "text2": "a"})
# ------------------------------------------------------------------ C08
fixed("F08a", "C08", "6484a56",
      "contains() never returned when a variable and a terminal share their value (S -> \"TER:S\" S | a)",
      {"g": {"start": "S", "how": "ctor", "vpool": "std", "tpool": "shared",
             "prods": [["S", [["T", "S"], ["V", "S"]]], ["S", [["T", "a"]]]]}})
F[-1]["hangs"] = True
fixed("F08b", "C08", "22c42bd",
      "the normal form reused the name a#CNF# of an existing variable: contains accepted a a a for S -> a a | S X | $, X -> S with X named a#CNF#",
      {"g": {"start": "S", "how": "ctor", "vpool": "fresh", "tpool": "ab",
             "prods": [["S", []], ["S", [["V", "S"], ["V", "a#CNF#"]]], ["a#CNF#", [["V", "S"]]],
                       ["S", [["T", "a"], ["T", "a"]]]]}})
# ------------------------------------------------------------------ C09
fixed("F09a", "C09", "9a30931",
      "to_normal_form kept A -> A (fast path counted unit pairs): is_normal_form() False on the result",
      {"g": {"start": "S", "how": "ctor", "vpool": "std", "tpool": "ab",
             "prods": [["S", [["V", "S"]]], ["S", [["T", "a"]]]]}})
# ------------------------------------------------------------------ C10
fixed("F10a", "C10", "72cd3ae",
      "union/concatenate/closure/substitute raised KeyError(None) on a grammar without start symbol (CFG())",
      {"g1": {"start": "S", "how": "ctor", "vpool": "std", "tpool": "ab", "prods": [["S", [["T", "a"]]]]},
       "g2": {"start": None, "prods": [], "how": "ctor", "vpool": "std", "tpool": "ab"},
       "sub": {"first": 0, "second_self": False}})
# ------------------------------------------------------------------ C11
fixed("F11a", "C11", "130a194",
      "CFG.intersection raised TypeError with a deterministic automaton of class NFA/EpsilonNFA",
      {"kind": "cfg", "g": {"start": "S", "how": "ctor", "vpool": "std", "tpool": "ab", "prods": [["S", [["T", "a"]]]]},
       "r": {"kind": "fa", "fa": fa("nfa", [[0, "a", 1]], [0], [1])}})
fixed("F11b", "C11", "7d2a38c",
      "CFG.intersection trusted converter indexes cached on Variable/State objects: with a terminal and a variable both spelled A the intersection with the regex A was empty (same root cause as F19c)",
      {"kind": "cfg", "g": {"how": "text", "start": "S", "tpool": "shared", "vpool": "std",
                            "prods": [["S", [["V", "A"]]], ["S", [["T", "A"]]], ["S", []], ["S", [["V", "S"]]], ["A", [["T", "a"]]]]},
       "r": {"ast": ["sym", "A"], "kind": "regex", "text": "A"}}, hashseed="1269886241")
# ------------------------------------------------------------------ C14
def g(prods, **kw):
    d = {"start": "S", "how": "ctor", "vpool": "std", "tpool": "ab", "prods": prods}
    d.update(kw)
    return d


fixed("F14a", "C14", "73c4810",
      "LL(1) table entered nullable productions with a non-empty body under FOLLOW only: S -> B, B -> a | epsilon refused the member 'a'",
      {"g": g([["S", [["V", "B"]]], ["B", [["T", "a"]]], ["B", []]])})
fixed("F14b", "C14", "85330f9",
      "get_llone_parse_tree raised AttributeError when input remains after a complete parse (S -> b, word b zz)",
      {"g": g([["S", [["T", "b"]]]])})
# ------------------------------------------------------------------ C15
fixed("F15a", "C15", "d629566",
      "get_leftmost_derivation re-inserted a variable that derived epsilon when it is not the last child (S -> A B, A -> epsilon, B -> b: the derivation of b ended in A b)",
      {"kind": "cfg", "g": g([["S", [["V", "A"], ["V", "B"]]], ["A", []], ["B", [["T", "b"]]]])})
fixed("F15c", "C15", "2d7c7b0",
      "FCFG.get_parse_tree shared mutable partial trees between Earley states: S -> b | S b gave trees with extra children / cycles for b b",
      {"kind": "fcfg", "f": {"start": "S", "sig": {"S": []},
                             "prods": [["S", {}, [["T", "b"]]], ["S", {}, [["V", "S", {}], ["T", "b"]]]]}})
# ------------------------------------------------------------------ C16
def fst(starts, finals, trans, pool="str"):
    return {"starts": starts, "finals": finals, "trans": trans, "pool": pool}


fixed("F16a", "C16", "790f657",
      "FST.kleene_star did not compute the star: for s0 -a/x-> s1 (start s0, final s1) the pair (empty, empty) was missing",
      {"kind": "fst", "f1": fst(["s0"], ["s1"], [["s0", "a", "s1", ["x"]], ["s1", "b", "s0", ["y"]]]),
       "f2": fst(["s0"], ["s1"], [["s0", "a", "s1", ["x"]]])})
fixed("F16b", "C16", "21b3a2d",
      "FiniteAutomaton.to_fst wrote the token 'epsilon' on epsilon transitions",
      {"kind": "fa", "fa": fa("enfa", [[0, None, 1], [1, "a", 2]], [0], [2])})
fixed("F16c", "C16", "02edf19",
      "FST.union/concatenate raised TypeError when both operands have the int state 0",
      {"kind": "fst", "f1": fst([0], [1], [[0, "a", 1, ["x"]]], "int"), "f2": fst([0], [1], [[0, "b", 1, ["y"]]], "int")})
# ------------------------------------------------------------------ C17
fixed("F17a", "C17", "c5fda1d",
      "IndexedGrammar.is_empty answered False for a grammar without any end rule (all consumption alternatives of a non-terminal skipped)",
      {"dup": None, "perm": [0, 1, 2, 3], "reg": {"kind": "regex", "text": "a"}, "with_intersection": False,
       "rules": [["prod", "S", "S", "f"], ["prod", "S", "A", "f"], ["cons", "f", "A", "S"], ["cons", "f", "A", "T"]]})
fixed("F17b", "C17", "7908bd3",
      "Rules(..., optim=4/5) raised KeyError('S') when S has no edge in the rule graph (single end rule)",
      {"dup": None, "perm": [0], "reg": {"kind": "regex", "text": "a"}, "with_intersection": False,
       "rules": [["end", "S", "a"]]})
fixed("F17c", "C17", "ba7fc91",
      "a duplicated consumption rule raised TypeError in ConsumptionRule.__eq__",
      {"dup": 0, "perm": [0, 1], "reg": {"kind": "regex", "text": "a"}, "with_intersection": False,
       "rules": [["cons", "f", "S", "A"], ["end", "A", "a"]]})
fixed("F17d", "C17", "9cde3dd",
      "IndexedGrammar.intersection raised AttributeError (pyformlang.regular_expression not imported) when the caller had not imported that submodule",
      {"dup": None, "perm": [0], "reg": {"kind": "fa", "fa": fa("dfa", [[0, "a", 1]], [0], [1])}, "with_intersection": True,
       "rules": [["end", "S", "a"]]})
# ------------------------------------------------------------------ C18
fixed("F18a", "C18", "e6837ef",
      "FCFG membership on grammars with epsilon productions: RuntimeError (dictionary changed size during iteration) for S -> A a | a, A -> epsilon",
      {"kind": "fcfg", "alternatives": False,
       "f": {"start": "S", "sig": {"A": [], "S": []},
             "prods": [["A", {}, []], ["S", {}, [["V", "A", {}], ["T", "a"]]], ["S", {}, [["T", "a"]]]]}})
fixed("F18b", "C18", "491b607",
      "feature productions differing only by their features were merged in the production set: S -> A[n=u], S -> A[n=v] lost one alternative",
      {"kind": "fcfg", "alternatives": False,
       "f": {"start": "S", "sig": {"A": ["n"], "S": []},
             "prods": [["S", {}, [["V", "A", {"n": "u"}]]], ["S", {}, [["V", "A", {"n": "v"}]]],
                       ["A", {"n": "u"}, [["T", "a"]]], ["A", {"n": "v"}, [["T", "b"]]]]}})
fixed("F18c", "C18", "289765c",
      "FCFG.from_text accumulated body features across | alternatives: S[n=u] -> a a | a B[n=u], B[n=v] -> b accepted a b",
      {"kind": "fcfg", "alternatives": True,
       "f": {"start": "S", "sig": {"A": [], "B": ["n"], "S": ["n"]},
             "prods": [["S", {"n": "u"}, [["T", "a"], ["T", "a"]]], ["A", {}, [["T", "a"], ["T", "a"]]],
                       ["S", {"n": "u"}, [["T", "a"], ["V", "B", {"n": "u"}]]], ["B", {"n": "v"}, [["T", "b"]]]]}})
fixed("F18d", "C18", "71b8879",
      "FeatureStructure.subsumes ignored shared values: the chart state of A[n=?z,p=?z] suppressed the more general one of A[n=?w,p=?k], "
      "so S -> A[n=?x,p=?y] B[n=?x] B[n=?y] rejected the member 'a b a' under about half of the hash seeds",
      {"kind": "fcfg", "alternatives": False, "how": "text",
       "f": {"start": "S", "sig": {"A": ["n", "p"], "B": ["n"], "S": []},
             "prods": [["S", {}, [["V", "A", {"n": "?x", "p": "?y"}], ["V", "B", {"n": "?x"}], ["V", "B", {"n": "?y"}]]],
                       ["A", {"n": "?z", "p": "?z"}, [["T", "a"]]], ["A", {"n": "?w", "p": "?k"}, [["T", "a"]]],
                       ["B", {"n": "u"}, [["T", "b"]]], ["B", {"n": "v"}, [["T", "a"]]]]}}, hashseed="2")
# ------------------------------------------------------------------ C20
fixed("F20a", "C20", "2e12088",
      "PDA.from_networkx skipped nodes named starting_*: the real state starting_q lost its transitions",
      {"kind": "pda", "finals": ["starting_q"], "starts": [], "states": ["starting_q", "q"],
       "trans": [["starting_q", "a", "a", "starting_q", []]], "z0": None})
fixed("F20b", "C20", "61bd78e",
      "PDA.add_final_state did not add the state to states: a final state without transition vanished from the export",
      {"kind": "pda", "how": "mut", "finals": ["f"], "starts": ["q"], "states": [], "trans": [["q", "a", "Z", "q", []]], "z0": "Z"})
fixed("F20c", "C20", "21dca5a",
      "FiniteAutomaton.from_networkx dropped isolated states",
      {"kind": "fa", "cls": "enfa", "finals": [0], "starts": [], "states": [0, 1], "trans": []})
fixed("F20d", "C20", "2c5e1e1",
      "CFG.from_text read \"TER:B\" as the variable B",
      {"kind": "cfg", "g": {"how": "ctor", "prods": [["S", [["T", "B"]]]], "start": "S", "tpool": "upper", "vpool": "std"}})
fixed("F20e", "C20", "e93b198",
      "PDA export merged a state named INITIAL_STACK_HIDDEN with the hidden start-stack node (JSONDecodeError on import)",
      {"kind": "pda", "finals": ["INITIAL_STACK_HIDDEN"], "starts": ["INITIAL_STACK_HIDDEN"],
       "states": ["INITIAL_STACK_HIDDEN", "q"], "trans": [], "z0": None})
fixed("F20f", "C20", "721a4b8",
      "PDA.from_networkx dropped isolated states",
      {"kind": "pda", "finals": [0], "starts": [0], "states": [0, 1], "trans": [], "z0": None})
# ------------------------------------------------------------------ C07
def pat(p, strings, features=()):
    return {"pattern": p, "strings": strings, "features": list(features), "excluded": []}


fixed("F07a", "C07", "c1c66b9",
      "PythonRegex kept one mandatory copy for {0}: a{0} rejected the empty string and accepted 'a'",
      pat("a{0}b{0,2}", ["", "a", "b", "bb", "ab"], ["{0}", "{0,n}"]))
fixed("F07b", "C07", "beb320f",
      "PythonRegex negated sets removed ^ from the complement: [^a] rejected '^'",
      pat("[^a]", ["^", "a", "b", ""], ["negset"]))
fixed("F07i", "C07", "ae75e06",
      "PythonRegex negated sets did not match the newline ([^a] rejected a newline, which Python matches)",
      pat("[^a]b*", ["\n", "\nb", "a", "b", "c"], ["negset", "*"]))
fixed("F07c", "C07", "d2eb25d",
      "PythonRegex kept the special meaning of . and $ inside sets: [.] accepted any character, [$] the empty string",
      pat("[.]|[$]x", ["a", ".", "$x", "x", ""], ["set", "set_meta_literal", "alt"]))
opened("F07d", "C07", "PythonRegex refuses or mis-reads a set with a leading ] literal ([]a] raises MisformedRegexError)",
       pat("[]a]", ["]", "a", "", "b"], ["set", "set_leading_bracket"]),
       None, None, "set_leading_bracket", ["set_leading_bracket"])
opened("F07e", "C07", "PythonRegex: a shortcut inside a set followed by one of ( + * ) ? . $ in the same set keeps the metacharacter active ([\\d.] matches every character, [\\d(] is refused)",
       pat("[\\d.]", ["a", "5", ".", ""], ["set", "set_shortcut", "set_meta_literal"]),
       None, None, "set_shortcut_meta", ["set_shortcut_meta"])
opened("F07f", "C07", "PythonRegex replaces shortcuts blindly: an escaped backslash followed by d, w or s is read as a shortcut (\\\\d does not match backslash-d)",
       pat("\\\\d", ["\\d", "5", "\\5", ""], ["esc"]),
       None, None, "backslash_dws", ["backslash_dws"])
opened("F07g", "C07", "PythonRegex negated sets ignore escaped ] - ^ and shortcuts when complementing ([^\\d] accepts 5, [^\\]] accepts ])",
       pat("[^\\d]|[^\\]]x", ["5", "a", "]x", "ax", ""], ["negset", "set_shortcut", "set_escape", "alt"]),
       None, None, "negset_escape", ["negset_escape"])
opened("F07h", "C07", "PythonRegex reads a '-' directly after the ^ of a negated set as a range operator starting at ^ ([^-a] accepts '-', [^--0] accepts '.')",
       pat("[^-a]|[^--0]x", ["-", "_", "b", ".x", "ax", ""], ["negset", "set_range", "alt"]),
       None, None, "negset_leading_dash", ["negset_leading_dash"])
# ------------------------------------------------------------------ C19
opened("F19d", "C19", "the grammar returned by IndexedGrammar.intersection has end rules whose terminal is a list: intersecting it again (or asking its terminals) raises TypeError (unhashable type: 'list')",
       {"family": "indexed_regex",
        "steps": [["new", "regex", {"text": "a"}], ["new", "ig", {"rules": [["end", "S", "a"]]}],
                  ["op", "ig_intersection", [1, 0]], ["op", "ig_intersection", [2, 0]]]},
       "op:ig_intersection", "exception:TypeError@end_rule.py", "nested_ig_intersection", ["ig_nested_intersection"])
fixed("F19e", "C19", "ea727b6",
      "union of a grammar returned by CFG.intersection raised TypeError in substitute (non-string variable values)",
      {"family": "grammar_automata_regex",
       "steps": [["new", "cfg", {"how": "text", "prods": [["S", [["T", "a"]]], ["S", [["V", "S"], ["V", "S"]]]], "start": "S", "tpool": "ab", "vpool": "std"}],
                 ["new", "fa", fa("enfa", [[0, "a", 0], [0, "a", 1], [0, "b", 0]], [0], [0], pool="int")],
                 ["op", "c_inter_fa", [0, 1]], ["op", "c_union", [0, 2]]]})
fixed("F19a", "C19", "e94acc3",
      "evaluating a combined regex overwrote the cached automaton of its operands: after r.concatenate(r) the operand r accepted other words",
      {"family": "automata_regex",
       "steps": [["new", "regex", {"text": "a"}], ["op", "r_concatenate", [0, 0]], ["new", "regex", {"text": "a"}]]})
fixed("F19b", "C19", "e94acc3",
      "Regex.to_epsilon_nfa handed out the automaton cached by accepts: mutating the returned automaton changed what the regex accepts",
      {"family": "automata_regex",
       "steps": [["new", "regex", {"text": "a"}], ["op", "to_epsilon_nfa", [0]], ["mut", 1]]})
fixed("F19c", "C19", "7d2a38c",
      "converter indexes cached on State/StackSymbol objects shared between PDAs: to_cfg of a PDA derived from another one raised IndexError (or produced a wrong grammar)",
      {"family": "pda_grammar_automata",
       "steps": [["new", "pda", {"finals": ["q0"], "how": "mut", "kpool": "std", "spool": "str", "start": "q0",
                                 "trans": [["q0", "a", "Z", "q0", []], ["q0", "a", "Z", "q1", []], ["q0", "a", "Z", "q2", []]],
                                 "ypool": "ab", "z0": "Z"}],
                 ["new", "pda", {"finals": ["q1"], "how": "mut", "kpool": "std", "spool": "str", "start": "q0",
                                 "trans": [["q0", "a", "Z", "q0", []], ["q0", "a", "Z", "q0", ["Z"]]], "ypool": "ab", "z0": "Z"}],
                 ["op", "to_empty_stack", [1]]]}, hashseed="1923123798")
fixed("F19f", "C19", "4a6de27",
      "PDA.intersection raised KeyError(None) on a PDA without start state (the PDA() returned by an earlier intersection)",
      {"family": "pda_grammar_automata",
       "steps": [["new", "regex", {"text": "a"}],
                 ["new", "fa", fa("dfa", [[0, "a", 0]], [], [0], pool="int")],
                 ["new", "pda", {"finals": [], "how": "mut", "kpool": "std", "spool": "str", "start": "q0",
                                 "trans": [["q0", "a", "Z", "q0", []], ["q0", "a", "Z", "q1", []]], "ypool": "ab", "z0": "Z"}],
                 ["op", "p_inter_fa", [2, 1]], ["op", "p_inter_regex", [3, 0]]]})
fixed("F19g", "C19", "bd45867",
      "CFG.intersection raised AttributeError on a grammar without start symbol (the CFG() returned by an earlier intersection with an empty language)",
      {"family": "grammar_automata_regex",
       "steps": [["new", "fa", fa("enfa", [[0, "a", 0]], [0], [1], pool="int")], ["new", "regex", {"text": "a"}],
                 ["new", "cfg", {"how": "text", "prods": [["S", [["V", "S"], ["T", "a"]]], ["S", [["T", "a"]]]], "start": "S", "tpool": "ab", "vpool": "std"}],
                 ["op", "c_inter_fa", [2, 0]], ["op", "c_inter_regex", [3, 1]]]})
fixed("F19h", "C19", "3519e38",
      "IndexedGrammar.is_empty answered from marks cached by an earlier call: after rules.remove_production(S, A, f) the "
      "grammar S -> A[f], A[f] -> B, B -> b still answered non-empty",
      {"family": "indexed_regex",
       "steps": [["new", "ig", {"rules": [["prod", "S", "A", "f"], ["cons", "f", "A", "B"], ["end", "B", "b"]]}],
                 ["mut3", 0, 0, 0]]})
# ------------------------------------------------------------------ C06
fixed("F06a", "C06", "2262869",
      "to_regex raised ValueError on automata with two start states",
      {"fa": fa("enfa", [["q0", "a", "q2"], ["q1", "b", "q2"]], ["q0", "q1"], ["q2"], pool="str", sympool="abc")})


def main():
    out = []
    for e in F:
        case = e.pop("_case")
        hs = e.pop("_hashseed")
        path = os.path.join(ROOT, e["witness"])
        os.makedirs(os.path.dirname(path), exist_ok=True)
        with open(path, "w") as fh:
            json.dump({"note": "%s witness: %s" % (e["id"], e["what"]), "hashseed": hs, "case": case}, fh, indent=1)
        out.append(e)
    with open(os.path.join(ROOT, "known_findings.json"), "w") as fh:
        json.dump(out, fh, indent=1)
    print("%d findings (%d open)" % (len(out), sum(1 for e in out if e["status"] == "open")))


if __name__ == "__main__":
    main()
