#!/bin/sh
# usage: tools/thorough_all.sh [ID ...] — thorough tier of every (given) check, one after the other; for `vp run`
cd "$(dirname "$0")/.." || exit 2
ids="$*"; [ -z "$ids" ] && ids=$(python3 -c "import json; print(' '.join(c['property_id'] for c in json.load(open('MANIFEST.json'))['checks']))")
sh -c "$(python3 -c "import json; print(json.load(open('MANIFEST.json'))['setup_cmd'])")"
for id in $ids; do
  out=$(VERIF_SEED=${VERIF_SEED:-1} timeout 20000 ./check "$id" --tier thorough 2>&1); rc=$?
  echo "$id rc=$rc $(echo "$out" | grep 'tier=thorough' | tail -1)"
  [ "$rc" != 0 ] && echo "$out" | grep -E "VIOLATION|violation detail|HARNESS|Error" | head -8
  echo "$out" | grep INCONCLUSIVE
  python3 - "$id" <<'PY'
import json, sys
e = json.load(open('evidence/%s.json' % sys.argv[1]))
c = e['coverage']
print('   evidence:', {k: c.get(k) for k in ('evaluations', 'distinct_nontrivial', 'exhaustive_cases', 'inconclusive', 'atheris_supplement')})
PY
done
echo "THOROUGH DONE"
