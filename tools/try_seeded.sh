#!/bin/sh
# usage: tools/try_seeded.sh <ID> [dir-with-patch.diff-and-demo.py (default /tmp/seed_out/<ID>)] [extra check args]
# Confirms a seeded change (applies to a scratch worktree of /repo HEAD, pinned suite still green, demo fails with
# the change and passes without) and runs the property's quick check against it.
cd "$(dirname "$0")/.." || exit 2
id="$1"; dir="${2:-$(pwd)/seeded/$id}"; shift; [ $# -gt 0 ] && shift
wt="/tmp/pfl_seed_$$"
git -C /repo worktree add -q --detach "$wt" HEAD || exit 2
trap 'git -C /repo worktree remove --force "$wt"' EXIT
git -C "$wt" apply "$dir/patch.diff" || { echo "PATCH DOES NOT APPLY"; exit 2; }
suite=$(cd "$wt" && PYTHONPATH="$wt" timeout 900 /venv/bin/python -m pytest -q -p no:cacheprovider --timeout=900 2>&1 | tail -1)
( cd /tmp && PYTHONPATH="$wt" timeout 300 /venv/bin/python "$dir/demo.py" >/dev/null 2>&1 ); d1=$?
( cd /tmp && PYTHONPATH=/repo timeout 300 /venv/bin/python "$dir/demo.py" >/dev/null 2>&1 ); d0=$?
out=$(VERIF_REPO="$wt" timeout 2400 ./check "$id" --tier quick --no-evidence "$@" 2>&1); rc=$?
echo "== $id suite: $suite | demo changed=$d1 unchanged=$d0 | check exit=$rc"
echo "$out" | grep -E "VIOLATION|violation detail|INCONCLUSIVE|HARNESS|tier=" | head -8
