#!/bin/sh
# usage: tools/try_seeded.sh <ID> [dir-with-patch.diff-and-demo.py (default /tmp/seed_out/<ID>)] [extra check args]
# Confirms a seeded change (applies to a scratch worktree of /repo HEAD, pinned suite still green, demo fails with
# the change and passes without) and runs the property's quick check against it.
cd "$(dirname "$0")/.." || exit 2
id="$1"; dir="${2:-$(pwd)/seeded/$id}"; shift; [ $# -gt 0 ] && shift
wt="/tmp/pfl_seed_$$"
git -C /repo worktree add -q --detach "$wt" HEAD || exit 2
trap 'git -C /repo worktree remove --force "$wt"' EXIT
if ! git -C "$wt" apply "$dir/patch.diff" 2>/dev/null; then
  # written against an older /repo HEAD (see meta.json "written_by"): fall back to that base commit; the witnesses of
  # findings fixed after it then fail as "(regression case)" lines, which is expected
  base=$(grep -o 'base commit [0-9a-f]\{7\}' "$dir/meta.json" 2>/dev/null | head -1 | cut -d' ' -f3)
  [ -n "$base" ] || { echo "PATCH DOES NOT APPLY"; exit 2; }
  git -C /repo worktree remove --force "$wt"; git -C /repo worktree add -q --detach "$wt" "$base" || exit 2
  git -C "$wt" apply "$dir/patch.diff" || { echo "PATCH DOES NOT APPLY (HEAD, $base)"; exit 2; }
  echo "note: patch applied to its base commit $base, not to HEAD"
fi
suite=$(cd "$wt" && PYTHONPATH="$wt" timeout 900 /venv/bin/python -m pytest -q -p no:cacheprovider --timeout=900 2>&1 | tail -1)
( cd /tmp && PYTHONPATH="$wt" timeout 300 /venv/bin/python "$dir/demo.py" >/dev/null 2>&1 ); d1=$?
( cd /tmp && PYTHONPATH=/repo timeout 300 /venv/bin/python "$dir/demo.py" >/dev/null 2>&1 ); d0=$?
out=$(VERIF_REPO="$wt" timeout 2400 ./check "$id" --tier quick --no-evidence "$@" 2>&1); rc=$?
echo "== $id suite: $suite | demo changed=$d1 unchanged=$d0 | check exit=$rc"
echo "$out" | grep -E "VIOLATION|violation detail|INCONCLUSIVE|HARNESS|tier=" | head -8
