#!/usr/bin/env python3
"""Regenerates MANIFEST.json from the table below (keeps it schema-valid at all times)."""
import json, os, sys
ROOT = os.path.dirname(os.path.dirname(os.path.abspath(__file__)))

# id -> (technique, level text, level note, design ref)
CHECKS = {
 "C04": ("property-based testing (Hypothesis) + exhaustive small-scope enumeration against a reference NFA",
         "Generated finite automata (3 classes, 9 state-name pools, 16 PYTHONHASHSEED values) and every 2-state "
         "(thorough: every 3-state single-start) epsilon-NFA over {a,eps}: is_empty, is_deterministic, is_acyclic and "
         "get_accepted_words(n) must equal the answers of an independent reference NFA (reachability, 3-clause "
         "definition, DFS cycle search, exact bounded language). Exploration: absence is not established beyond the "
         "enumerated scopes.",
         "Trusts vlib/ref_fa.py (textbook semantics, ~300 lines) and CPython; sizes bounded (<=5 states).",
         "DESIGN.md section 4, C04"),
}
NOT_APPLICABLE = {}

def main():
    props = [json.loads(l)["id"] for l in open(os.path.join(ROOT, "properties.jsonl"))]
    checks = []
    for pid in props:
        if pid not in CHECKS:
            continue
        tech, text, note, ref = CHECKS[pid]
        checks.append({
            "property_id": pid,
            "quick_cmd": "./check %s --tier quick" % pid,
            "thorough_cmd": "./check %s --tier thorough" % pid,
            "evidence_file": "/verif/evidence/%s.json" % pid,
            "replay_cmd_template": "./check %s --replay {path}" % pid,
            "engine": "pbt-runner",
            "level_claimed": {"category": "exploration", "text": text, "design_ref": ref},
            "level_note": note,
            "technique": tech,
        })
    na = [{"property_id": p, "reason": NOT_APPLICABLE.get(p, "check not built yet (work in progress); no claim is made")}
          for p in props if p not in CHECKS]
    m = {
        "version": 1,
        "setup_cmd": "/venv/bin/python -c 'import hypothesis' 2>/dev/null || /venv/bin/pip install --no-index --find-links /opt/veriftools/wheels hypothesis",
        "hooks": {"guard": "PYFORMLANG_VERIF", "enable": "not used: every observation goes through public observers of pyformlang, no source hook exists",
                  "baseline_off_cmd": "cd /repo && /venv/bin/python -m pytest -ra -q -p no:cacheprovider --timeout=900 --continue-on-collection-errors",
                  "source_commits": [], "add_only": True},
        "engines": [{"name": "pbt-runner", "path": "/verif/check", "serves_properties": [c["property_id"] for c in checks],
                     "kind_free_text": "Hypothesis-driven property-based testing with independent reference models, 16 worker processes each under its own PYTHONHASHSEED, exhaustive small-scope enumeration where the space is finite, shrunk JSON replay files"}],
        "checks": checks,
        "notes": "See DESIGN.md. Genuine defects are listed in known_findings.json (fixed: repaired by a fix: commit in /repo; open: reported as KNOWN-FINDING).",
        "not_applicable": na,
    }
    with open(os.path.join(ROOT, "MANIFEST.json"), "w") as fh:
        json.dump(m, fh, indent=1)
    print("MANIFEST.json: %d checks, %d not claimed" % (len(checks), len(na)))

if __name__ == "__main__":
    main()
