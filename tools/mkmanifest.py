#!/usr/bin/env python3
"""Regenerates MANIFEST.json from the table below (keeps it schema-valid at all times)."""
import json, os, sys
ROOT = os.path.dirname(os.path.dirname(os.path.abspath(__file__)))

# id -> (technique, level text, level note, design ref)
PBT = "property-based testing (Hypothesis generators, 16 PYTHONHASHSEED shards) against an independent reference model"
CHECKS = {
 "C01": (PBT + "; exact language comparison by product construction; exhaustive small scope",
         "Generated automata of the three classes (8 state-name pools incl. names that look like merged-state names, 6 symbol pools; built by mutators, "
         "by the constructors incl. the full 5-tuple, with queries interleaved with the build and with transitions added and removed again) "
         "and every 2-state (thorough: every 3-state single-start) epsilon-NFA over {a,eps}: accepts on all words <=3 (+foreign symbol, "
         "+epsilon tokens) equals the reference run semantics; to_deterministic / remove_epsilon_transitions / minimize / copy are extracted "
         "through public observers and compared exactly (product equivalence, shortest distinguishing word) plus shape clauses. "
         "Exploration: nothing is established beyond the generated cases and the enumerated scopes.",
         "Trusts vlib/ref_fa.py (textbook NFA semantics) and CPython; <=5 states per automaton in most cases, 6-15 states (big / chain / dense-DAG shapes) in about a quarter.",
         "DESIGN.md section 4, C01"),
 "C02": (PBT + "; metamorphic pair generation (language-preserving and language-changing edits); exhaustive pairs of 2-state automata",
         "Ordered pairs of automata (independent, language-preserving edits, minimal language-changing edits, same description in another class): "
         "is_equivalent_to both ways and == must equal the exact reference equivalence; minimize() must be language-equal, all states reachable, "
         "pairwise distinguishable, and isomorphic to the minimisation of every equivalent operand. "
         "Exploration.",
         "Trusts vlib/ref_fa.py (equivalence by BFS over subset pairs, Moore refinement for the canonical size).",
         "DESIGN.md section 4, C02"),
 "C03": (PBT + "; exact language comparison of every operation result with the reference construction",
         "Pairs of (mostly nondeterministic, epsilon) automata sharing state names, alphabets equal/overlapping/disjoint: intersection, complement "
         "(own alphabet), difference, reversal, union, concatenation, star and the operator forms are extracted and compared exactly with the reference "
         "constructions. Thorough tier also enumerates all ordered pairs of the 256 two-state NFAs over {a} and every two-state epsilon-NFA over "
         "{a,b,eps} against a fixed partner. Exploration.",
         "Trusts vlib/ref_fa.py; union/concatenate/kleene_star only on plain-token symbols (they go through to_regex).",
         "DESIGN.md section 4, C03"),
 "C04": (PBT + "; exhaustive small-scope enumeration",
         "Generated finite automata (3 classes, 8 state-name pools, 16 PYTHONHASHSEED values) and every 2-state "
         "(thorough: every 3-state single-start) epsilon-NFA over {a,eps}: is_empty, is_deterministic, is_acyclic and "
         "get_accepted_words(n) must equal the answers of an independent reference NFA (reachability, 3-clause "
         "definition, DFS cycle search, exact bounded language, no duplicates). Exploration: absence is not established beyond the "
         "enumerated scopes.",
         "Trusts vlib/ref_fa.py (textbook semantics, ~300 lines) and CPython; sizes bounded (<=5 states).",
         "DESIGN.md section 4, C04"),
 "C05": (PBT + " (reference regex AST -> Thompson NFA, strict recogniser for the ill-formed side); exact language comparison",
         "Well-formed side: ASTs rendered to text with random surface syntax; Regex(text) must build, its extracted epsilon-NFA must equal "
         "Thompson(AST) exactly, accepts (lists, tuples, generators) / to_cfg (default and explicit start symbol) / contains agree on all words <=3, union/concatenate/kleene_star and | + equal the reference "
         "combination, str(regex) parses back to the same language, operands keep their meaning. Ill-formed side: 1-2 token edits labelled by a "
         "strict recogniser; 'ill' must raise MisformedRegexError, 'ok' must be accepted with the right language, nothing but "
         "MisformedRegexError may escape. Exploration.",
         "Trusts vlib/ref_regex.py as the reading of the documented grammar; 'grey' strings (missing right operand, empty group, empty text) are free.",
         "DESIGN.md section 4, C05"),
 "C07": (PBT + " (differential testing against CPython re.fullmatch; AST-based pattern generator with positive sampling)",
         "Patterns generated from an AST over the documented subset with strings sampled from the AST, their one-edit mutations, all one-character "
         "strings and random strings: PythonRegex(p).accepts(s) == (re.fullmatch(p, s) is not None); patterns rejected by re.compile must be refused. "
         "Subjects include the printable whitespace characters. Five genuine defects of the set handling stay open (known_findings.json: F07d leading ], "
         "F07e shortcut followed by a metacharacter in a set, F07f escaped backslash before d/w/s, F07g negated sets with escapes/shortcuts, F07h negated "
         "set with a leading '-'): their witnesses are replayed and reported as KNOWN-FINDING, "
         "their feature classes are excluded by construction from generation (counted in excluded_by_finding). Exploration.",
         "Trusts CPython's re; '[' inside a set is left out (Python itself warns about its future meaning).",
         "DESIGN.md section 4, C07"),
 "C08": (PBT + " (bounded language by least fixpoint, no parser); exhaustive small scope in the thorough tier",
         "Generated grammars (epsilon/unit/recursive/useless productions, shared spellings, int/str twins, reserved fresh names, both constructors): contains "
         "(word as list, tuple, one-shot generator, Terminal objects), "
         "`in`, generate_epsilon on every word <=3 over terminals+foreign and the members / some non-members of length 4 must equal membership in the "
         "reference bounded language. Thorough additionally enumerates every grammar with <=3 productions over {S,A}x{a,b} bodies <=2. Exploration.",
         "Trusts vlib/ref_cfg.py least fixpoints; <=4 variables, <=8(+) productions.",
         "DESIGN.md section 4, C08"),
 "C09": (PBT + " (bounded-language equality + shape predicates on the extracted result)",
         "For remove_useless_symbols, remove_epsilon, eliminate_unit_productions, to_normal_form the extracted result must generate the same words "
         "up to length 5 (minus epsilon where documented) and have the promised shape; is_normal_form agrees with the definition. Exploration.",
         "Trusts vlib/ref_cfg.py; language equality is decided up to length 5 only.",
         "DESIGN.md section 4, C09"),
 "C10": (PBT + " (set-theoretic combination of reference bounded languages)",
         "Pairs of grammars sharing variable names (incl. names like the library's fresh symbols, the start-less CFG(), the same object twice): union, "
         "concatenate, closures, reverse, substitute and | + ~ are extracted; bounded language (<=4) and contains (<=3) must equal the "
         "set-theoretic combination. Exploration.",
         "Trusts vlib/ref_cfg.py; string-valued variables only; equality decided up to length 4.",
         "DESIGN.md section 4, C10"),
 "C11": (PBT + " (bounded CFL intersected with the exact reference regular language; reference PDA interpreter)",
         "(CFG | PDA) x (regex | DFA | NFA | epsilon-NFA incl. deterministic automata of non-DFA classes): the extracted intersection grammar's "
         "bounded language (<=4) equals L(G) intersected with the reference automaton language and contains() agrees; the extracted intersection PDA, run by "
         "the reference interpreter, accepts by final state exactly the words <=3 accepted by both; other operand types raise NotImplementedError. Exploration.",
         "Trusts vlib/ref_cfg.py, ref_pda.py, ref_fa.py, ref_regex.py; string-valued symbols; bounded word length.",
         "DESIGN.md section 4, C11"),
 "C13": (PBT + " (reference PDA interpreter by pop-summary fixpoint, cross-checked per case against brute-force configuration search)",
         "PDAs with epsilon moves, multi-symbol pushes, stack-growing epsilon cycles and reserved names, and CFGs: to_cfg, to_final_state, to_empty_stack, "
         "their compositions, cfg.to_pda and to_pda().to_cfg() are extracted and evaluated by the reference interpreter / bounded-language fixpoint on all "
         "words <=3 and compared with the original's language in the other acceptance mode. Exploration.",
         "Trusts vlib/ref_pda.py (self-checked against brute force in every case) and vlib/ref_cfg.py; string-valued grammar symbols for to_pda.",
         "DESIGN.md section 4, C13"),
 "C14": (PBT + " (textbook FIRST/FOLLOW/PREDICT reference; parser judged by membership oracle and tree validity predicate)",
         "Useful-symbol grammars (random reduced grammars, LL(1)-like constructions with nullable variables, nullable non-empty bodies, left recursion, layered "
         "'cascade' grammars of up to 6 variables, a terminal valued '$'; parser built on a fresh and on an already queried grammar object): "
         "FIRST and FOLLOW per variable, the LL(1) verdict, and for LL(1) grammars get_llone_parse_tree on all words <=3 (+foreign), members of length 4 and "
         "their extensions returns a valid tree iff member and raises only NotParsableException. Exploration.",
         "Trusts vlib/ref_cfg.py FIRST/FOLLOW/PREDICT and bounded languages.",
         "DESIGN.md section 4, C14"),
 "C15": (PBT + " (validity predicate over trees and derivations; membership oracle)",
         "CNF trees, LL(1) trees, recursive-descent trees (left and right, on grammars where it terminates) and FCFG Earley trees are validated node by node "
         "against the production set of the grammar parsed, leaves against the word, and both derivations step by step; a tree is returned iff the word is a "
         "member, otherwise the documented exception. Where the word is documented as an iterable it is passed as a list, a tuple and a one-shot iterator "
         "in turn. A tree too large to validate makes the case inconclusive, never a violation. Exploration.",
         "Trusts vlib/trees.py predicates and the reference membership oracles; recursive-descent parser only run where it is guaranteed to terminate.",
         "DESIGN.md section 4, C15"),
 "C12": (PBT + " (reference fixpoints for emptiness, finiteness, symbol classes, bounded enumeration)",
         "is_empty, is_finite, get_generating/nullable/reachable_symbols equal the reference fixpoints (two independent finiteness criteria); "
         "get_words(n) has no duplicate, only lists of Terminal and equals the bounded language; unbounded get_words() on finite languages. Exploration.",
         "Trusts vlib/ref_cfg.py; unbounded enumeration only when the longest word has length <=7.",
         "DESIGN.md section 4, C12"),
 "C06": (PBT + "; exhaustive small-scope enumeration; round trip to_regex -> to_epsilon_nfa compared exactly with the reference automaton",
         "Epsilon-NFAs over plain-token symbols (and the integers 0-2 read through str()) with 0-3 start states, 0-3 finals, loops, epsilon edges under 16 hash seeds (elimination order): "
         "the epsilon-NFA of to_regex() is extracted and compared exactly with the reference automaton; Regex.accepts agrees on all words <=3; "
         "any exception is a failure. Every 2-state epsilon-NFA over {a,eps} is enumerated (thorough: over {a,b,eps}, plus every 3-state elimination "
         "pattern over {a,eps}). Exploration.",
         "Reads the language of the returned Regex through Regex.to_epsilon_nfa/accepts, which C05 judges separately.",
         "DESIGN.md section 4, C06"),
 "C16": (PBT + " (reference transduction relation by BFS; extracted results evaluated by the reference)",
         "Pairs of transducers sharing (colliding) state names, several start/final states, epsilon-input moves, non-writing epsilon cycles: "
         "set(translate(w)) equals the reference output set for all inputs <=3 (+foreign symbol); union / concatenate / kleene_star (| +) are extracted "
         "and their reference relation equals the union / pairwise concatenation / star of the operand relations; to_fst() is the identity on the "
         "accepted words. Thorough tier also enumerates all 57344 two-state transducers over a|eps / []|[x] in the domain. Exploration.",
         "Trusts vlib/ref_fst.py; epsilon cycles write nothing (property domain); output-length guard when evaluating library-produced machines.",
         "DESIGN.md section 4, C16"),
 "C17": (PBT + " (reference emptiness by function-table fixpoint, cross-checked per case by bounded brute-force derivation search)",
         "Reduced-form indexed grammars (all four rule kinds, several consumption rules per index/variable, duplicated rules, reserved names S/T): "
         "is_empty() equals the reference for optim 0..8 x 2-3 rule orders, on a second call and after remove_useless_rules(); for <=4-rule "
         "grammars the emptiness of intersection(r) / & equals the emptiness of the reference product grammar. Exploration.",
         "Trusts vlib/ref_ig.py (table fixpoint, not Aho's marking); intersection clause kept tiny because the library's marking is exponential "
         "(rare 20 s watchdog hits are reported as inconclusive).",
         "DESIGN.md section 4, C17"),
 "C18": (PBT + " (union-find graph unification; ground instantiation of feature grammars into a plain CFG)",
         "Pairs of consistently typed feature structures with re-entrancy: unify succeeds iff the reference finds no clash, the receiver then has exactly "
         "the reference paths, values and sharing partition, argument order does not matter, a clash raises FeatureStructuresNotCompatibleException. "
         "Feature grammars in text form or built through the constructors with falsy / mixed values (constants, variables, omitted features, epsilon productions, left recursion, same-skeleton productions, | "
         "alternatives): contains(w) on all words <=4 equals membership in the ground instantiation; feature-free grammars agree with CFG.contains. Exploration.",
         "Trusts vlib/ref_fs.py; one value domain {u,v} for all features; structures of depth <=3.",
         "DESIGN.md section 4, C18"),
 "C19": ("stateful property-based testing (Hypothesis RuleBasedStateMachine per object family; twin rebuilt from the recipe as the model)",
         "Histories of builds, conversions, combinations (same object as both operands), shared State/Symbol objects, explicit queries, mutations of "
         "returned and of user-built objects (loops, removed transitions, edits chosen by rank incl. count-preserving ones, indexed-grammar productions), "
         "the same operation before and after an edit of its operand, over five object families; after every step every pooled object must answer a battery of public queries exactly like a twin "
         "rebuilt from its recipe, and no operand's structural snapshot may change. The shrunk history (JSON) is replayed by a plain interpreter without "
         "Hypothesis. One genuine defect stays open (F19d: the result of IndexedGrammar.intersection cannot be intersected again). Exploration: histories "
         "are sampled.",
         "The rebuilt twin is the 'freshly built equal object'; the specified identity result (dfa.to_deterministic() is dfa) is modelled as an alias; any other operation returning a mutable operand is tested by mutating the result.",
         "DESIGN.md section 4, C19"),
 "C20": (PBT + " (structural round-trip equality on extracted descriptions; exact language equality for recursive-automaton boxes)",
         "Automata, PDAs and transducers over JSON-representable values (odd strings, floats, names like starting_q / INITIAL_STACK_HIDDEN, isolated "
         "states, parallel edges, multi-symbol pushes/outputs): from_networkx(to_networkx(x)) has the same states, marking, transitions and start stack "
         "symbol; CFG.from_text(to_text()) has the same productions and bounded language incl. VAR:/TER: markers; RecursiveAutomaton.from_ebnf / "
         "from_regex give one box per head, exactly equivalent to the reference union of its right-hand sides, each box with an automaton of its own "
         "(editing one leaves the others unchanged). Exploration.",
         "Trusts the extraction helpers and vlib/ref_regex.py; values restricted to the property's domain.",
         "DESIGN.md section 4, C20"),
}
NOT_APPLICABLE = {}

def main():
    props = [json.loads(l)["id"] for l in open(os.path.join(ROOT, "properties.jsonl"))]
    checks = []
    for pid in props:
        if pid not in CHECKS:
            continue
        tech, text, note, ref = CHECKS[pid]
        checks.append({
            "property_id": pid,
            "quick_cmd": "./check %s --tier quick" % pid,
            "thorough_cmd": "./check %s --tier thorough" % pid,
            "evidence_file": "/verif/evidence/%s.json" % pid,
            "replay_cmd_template": "./check %s --replay {path}" % pid,
            "engine": "pbt-runner",
            "level_claimed": {"category": "exploration", "text": text, "design_ref": ref},
            "level_note": note,
            "technique": tech,
        })
    na = [{"property_id": p, "reason": NOT_APPLICABLE.get(p, "check not built yet (work in progress); no claim is made")}
          for p in props if p not in CHECKS]
    m = {
        "version": 1,
        "setup_cmd": "(/venv/bin/python -c 'import hypothesis' 2>/dev/null || /venv/bin/pip install --no-index --find-links /opt/veriftools/wheels hypothesis) && (test -d .deps/atheris || /venv/bin/pip install -q --no-index --find-links /opt/veriftools/wheels --target .deps atheris || echo 'atheris not installed: the optional coverage-guided supplement of the thorough tier will be skipped')",
        "hooks": {"guard": "PYFORMLANG_VERIF", "enable": "not used: every observation goes through public observers of pyformlang, no source hook exists",
                  "baseline_off_cmd": "cd /repo && /venv/bin/python -m pytest -ra -q -p no:cacheprovider --timeout=900 --continue-on-collection-errors",
                  "source_commits": [], "add_only": True},
        "engines": [{"name": "pbt-runner", "path": "/verif/check", "serves_properties": [c["property_id"] for c in checks],
                     "kind_free_text": "Hypothesis-driven property-based testing with independent reference models, 16 worker processes each under its own PYTHONHASHSEED, exhaustive small-scope enumeration where the space is finite, shrunk JSON replay files"}],
        "checks": checks,
        "notes": "See DESIGN.md. Genuine defects are listed in known_findings.json (fixed: repaired by a fix: commit in /repo; open: reported as KNOWN-FINDING).",
        "not_applicable": na,
    }
    with open(os.path.join(ROOT, "MANIFEST.json"), "w") as fh:
        json.dump(m, fh, indent=1)
    print("MANIFEST.json: %d checks, %d not claimed" % (len(checks), len(na)))

if __name__ == "__main__":
    main()
