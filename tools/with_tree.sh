#!/bin/sh
# usage: tools/with_tree.sh <commit-ish> [patch-file|-] -- <command...>
# runs the command with VERIF_REPO pointing at a scratch worktree of /repo at <commit-ish>
# (optionally with a patch applied); the worktree is removed afterwards.
rev="$1"; patch="$2"; shift 2; [ "$1" = "--" ] && shift
wt="/tmp/pfl_wt_$$"
git -C /repo worktree add -q --detach "$wt" "$rev" || exit 2
if [ "$patch" != "-" ]; then git -C "$wt" apply "$patch" || { git -C /repo worktree remove --force "$wt"; exit 2; }; fi
VERIF_REPO="$wt" "$@"; rc=$?
git -C /repo worktree remove --force "$wt"
exit $rc
