#!/bin/sh
# usage: tools/soak.sh <first-seed> <last-seed> [ID ...]   — quick tier of every (given) check on a range of seeds;
# prints one line per run and a summary; meant for `vp run -- tools/soak.sh 1 20`
cd "$(dirname "$0")/.." || exit 2
a="$1"; b="$2"; shift 2
ids="$*"; [ -z "$ids" ] && ids=$(python3 -c "import json; print(' '.join(c['property_id'] for c in json.load(open('MANIFEST.json'))['checks']))")
bad=0
for s in $(seq "$a" "$b"); do
  for id in $ids; do
    out=$(VERIF_SEED=$s timeout 3000 ./check "$id" --tier quick --no-evidence 2>&1); rc=$?
    line=$(echo "$out" | grep "tier=quick" | tail -1)
    inc=$(echo "$out" | grep -c INCONCLUSIVE)
    echo "seed=$s $id rc=$rc inc=$inc $line"
    if [ "$rc" != 0 ]; then bad=$((bad+1)); echo "$out" | grep -E "VIOLATION|violation detail|HARNESS|Error" | head -6; fi
  done
done
echo "SOAK DONE bad=$bad"
